#!/bin/bash
# ./run.sh <ID> <quick|thorough>   run one property check against /repo's current working tree
# ./run.sh replay <file>           strict re-execution of a saved replay file
# ./run.sh setup                   build the framework (offline)
# Exit codes: 0 = held on everything explored, 1 = VIOLATION printed, 2 = inconclusive (build/infrastructure/watchdog).
set -u
cd "$(dirname "$0")"
export CARGO_NET_OFFLINE=true
export VERIF_SEED="${VERIF_SEED:-1}"
H=/verif/harness

build() {
  # the library is a path dependency: any edit under /repo/poly-commit is recompiled here
  cp -f /repo/Cargo.lock "$H/Cargo.lock.repo" 2>/dev/null || true
  ( cd "$H" && cargo build --release --quiet 2> "$H/build.log" )
  local rc=$?
  if [ $rc -ne 0 ]; then
    echo "INCONCLUSIVE: harness build failed (see $H/build.log)"
    grep -E "^error" -A6 "$H/build.log" | head -40
    exit 2
  fi
}

build_nopar() {
  ( cd "$H" && cargo build --release --quiet --no-default-features --features noparallel --target-dir "$H/target-nopar" 2> "$H/build-nopar.log" )
  local rc=$?
  if [ $rc -ne 0 ]; then
    echo "INCONCLUSIVE: harness (no-parallel variant) build failed (see $H/build-nopar.log)"
    grep -E "^error" -A6 "$H/build-nopar.log" | head -40
    exit 2
  fi
}

case "${1:-}" in
  setup)
    build
    build_nopar
    echo "setup ok"
    ;;
  replay)
    build
    exec "$H/target/release/pcverif" replay "$2"
    ;;
  C18)
    build
    build_nopar
    exec "$H/target/release/pcverif" run "$1" "${2:-quick}" 2> "$H/last-stderr.log"
    ;;
  C*)
    build
    exec "$H/target/release/pcverif" run "$1" "${2:-quick}" 2> "$H/last-stderr.log"
    ;;
  *)
    echo "usage: $0 <ID> <quick|thorough> | replay <file> | setup" >&2
    exit 2
    ;;
esac
