#!/bin/bash
# ./run.sh <ID> <quick|thorough>   run one property check against /repo's current working tree
# ./run.sh replay <file>           strict re-execution of a saved replay file
# ./run.sh setup                   build the framework (offline)
# Exit codes: 0 = held on everything explored, 1 = VIOLATION printed, 2 = inconclusive (build/infrastructure/watchdog).
set -u
cd "$(dirname "$0")"
export CARGO_NET_OFFLINE=true
export VERIF_SEED="${VERIF_SEED:-1}"
ROOT="${VERIF_ROOT:-/verif}"   # a snapshot under vp run sets VERIF_ROOT (and rewrites the path dependency)
export VERIF_ROOT="$ROOT"
H=$ROOT/harness

build() {
  # the library is a path dependency: any edit under /repo/poly-commit is recompiled here
  cp -f /repo/Cargo.lock "$H/Cargo.lock.repo" 2>/dev/null || true
  ( cd "$H" && cargo build --release --quiet 2> "$H/build.log" )
  local rc=$?
  if [ $rc -ne 0 ]; then
    echo "INCONCLUSIVE: harness build failed (see $H/build.log)"
    grep -E "^error" -A6 "$H/build.log" | head -40
    exit 2
  fi
}

build_nopar() {
  ( cd "$H" && cargo build --release --quiet --no-default-features --features noparallel --target-dir "$H/target-nopar" 2> "$H/build-nopar.log" )
  local rc=$?
  if [ $rc -ne 0 ]; then
    echo "INCONCLUSIVE: harness (no-parallel variant) build failed (see $H/build-nopar.log)"
    grep -E "^error" -A6 "$H/build-nopar.log" | head -40
    exit 2
  fi
}

case "${1:-}" in
  setup)
    build
    build_nopar
    echo "setup ok"
    ;;
  replay)
    build
    exec "$H/target/release/pcverif" replay "$2"
    ;;
  C03)
    build
    tier="${2:-quick}"
    "$H/target/release/pcverif" run C03 "$tier" 2> "$H/last-stderr.log"
    rc=$?
    if [ "$tier" = "thorough" ] && [ $rc -eq 0 ]; then
      # coverage-guided tier: libFuzzer target over the same oracle (DESIGN.md §11)
      ( cd "$H" && cargo +nightly fuzz build --fuzz-dir ../fuzz -s none > "$H/fuzz-build.log" 2>&1 )
      if [ $? -ne 0 ]; then
        echo "INCONCLUSIVE: fuzz target build failed (see $H/fuzz-build.log); proptest units of C03 passed"
        exit 2
      fi
      run=$ROOT/fuzz/corpus-run
      rm -rf "$run" && mkdir -p "$run" && cp $ROOT/fuzz/corpus/proofshape/* "$run"/
      runs="${VERIF_FUZZ_RUNS:-3000}"
      ( cd $ROOT/fuzz && ./target/x86_64-unknown-linux-gnu/release/proofshape "$run" -seed="$VERIF_SEED" -runs="$runs" -jobs=8 -workers=8 -len_control=0 -max_len=512 -artifact_prefix=$ROOT/fuzz/artifacts/ > "$H/fuzz-run.log" 2>&1 )
      frc=$?
      cat $ROOT/fuzz/fuzz-*.log >> "$H/fuzz-run.log" 2>/dev/null; rm -f $ROOT/fuzz/fuzz-*.log
      viol=$(grep -h "^VIOLATION property=C03" "$H/fuzz-run.log" | sort -u)
      execs=$(grep -ho "Done [0-9]* runs" "$H/fuzz-run.log" | awk '{s+=$2} END {print s+0}')
      python3 - "$execs" "$(ls "$run" | wc -l)" "$(echo "$viol" | grep -c VIOLATION)" <<'PY'
import json,sys,os
p=os.environ.get('VERIF_ROOT','/verif')+'/evidence/C03.json'
e=json.load(open(p))
e['coverage']['libfuzzer']={'target':'proofshape','executions':int(sys.argv[1]),'corpus_files_after_run':int(sys.argv[2]),'violations':int(sys.argv[3]),
  'note':'coverage-guided exploration of the same C03 oracle; campaigns are only approximately reproducible, saved inputs are the reproducible unit'}
e['coverage']['evaluations']+=int(sys.argv[1])
e['violations']=e.get('violations',0)+int(sys.argv[3])
json.dump(e,open(p,'w'),indent=1)
PY
      if [ -n "$viol" ]; then
        echo "$viol"
        grep -h "^  unit=C03" "$H/fuzz-run.log" | sort -u | head -5
        exit 1
      fi
      echo "libFuzzer: $execs executions, no violation"
    fi
    exit $rc
    ;;
  C18)
    build
    build_nopar
    exec "$H/target/release/pcverif" run "$1" "${2:-quick}" 2> "$H/last-stderr.log"
    ;;
  C*)
    build
    exec "$H/target/release/pcverif" run "$1" "${2:-quick}" 2> "$H/last-stderr.log"
    ;;
  *)
    echo "usage: $0 <ID> <quick|thorough> | replay <file> | setup" >&2
    exit 2
    ;;
esac
