//! The engine: proptest driver, worker pool, shrink → replay, evidence, known findings.

use crate::util::{fnv64, mix_seed};
use proptest::strategy::{BoxedStrategy, Strategy};
use proptest::test_runner::{Config, RngAlgorithm, RngSeed, TestCaseError, TestError, TestRunner};
use serde::{de::DeserializeOwned, Serialize};
use serde_json::{json, Value};
use std::cell::RefCell;
use std::collections::{BTreeMap, BTreeSet, HashSet};
use std::fmt::Debug;
use std::path::{Path, PathBuf};
use std::sync::{Arc, Mutex};
use std::time::Instant;

/// cases skipped because the harness itself (not a guarded library call) panicked; first message kept
static HARNESS_PANICS: std::sync::atomic::AtomicU64 = std::sync::atomic::AtomicU64::new(0);
static FIRST_HARNESS_PANIC: Mutex<Option<String>> = Mutex::new(None);

/// Run one case; a panic of the harness's own code skips the case (counted and reported, never a
/// violation and never silently dropped) instead of taking the whole check down.
fn guarded_case<C>(unit: &str, check: &dyn Fn(&C, &mut CaseCtx) -> Result<(), Failure>, case: &C, ctx: &mut CaseCtx) -> Result<(), Failure> {
    match std::panic::catch_unwind(std::panic::AssertUnwindSafe(|| {
        // development switch: exercise this path once
        if std::env::var("VERIF_TEST_HARNESS_PANIC").is_ok() && HARNESS_PANICS.load(std::sync::atomic::Ordering::SeqCst) == 0 {
            panic!("simulated harness panic");
        }
        check(case, ctx)
    })) {
        Ok(r) => r,
        Err(p) => {
            let msg = if let Some(s) = p.downcast_ref::<&str>() {
                s.to_string()
            } else if let Some(s) = p.downcast_ref::<String>() {
                s.clone()
            } else {
                "?".into()
            };
            HARNESS_PANICS.fetch_add(1, std::sync::atomic::Ordering::SeqCst);
            let mut f = FIRST_HARNESS_PANIC.lock().unwrap();
            if f.is_none() {
                *f = Some(format!("{unit}: {msg}"));
            }
            ctx.labels.insert("harness_panic(case skipped)".to_string());
            Ok(())
        }
    }
}

/// root of the verification tree: /verif, or $VERIF_ROOT for background runs in a snapshot (vp run)
pub fn verif_dir() -> String {
    std::env::var("VERIF_ROOT").unwrap_or_else(|_| "/verif".to_string())
}

#[derive(Clone, Copy, Debug, PartialEq, Eq)]
pub enum Tier {
    Quick,
    Thorough,
}

impl Tier {
    pub fn name(&self) -> &'static str {
        match self {
            Tier::Quick => "quick",
            Tier::Thorough => "thorough",
        }
    }
    pub fn is_quick(&self) -> bool {
        *self == Tier::Quick
    }
    /// pick a count by tier
    pub fn n(&self, quick: u32, thorough: u32) -> u32 {
        match self {
            Tier::Quick => quick,
            Tier::Thorough => thorough,
        }
    }
}

/// A property failure found by an oracle.
#[derive(Clone, Debug)]
pub struct Failure {
    /// `<ID>:<scheme>:<sub-check>:<failure class>`
    pub sig: String,
    pub msg: String,
}

/// One entry of /verif/known_findings.json
#[derive(Clone, Debug, serde::Deserialize)]
pub struct KnownEntry {
    pub property: String,
    pub signature: String,
    pub status: String, // "known" | "fixed"
    #[serde(default)]
    pub commit: Option<String>,
    pub what: String,
}

#[derive(Clone, Debug, Default)]
pub struct KnownFindings {
    pub entries: Vec<KnownEntry>,
}

impl KnownFindings {
    pub fn load() -> Self {
        let p = Path::new(&verif_dir()).join("known_findings.json");
        match std::fs::read_to_string(&p) {
            Ok(s) => {
                #[derive(serde::Deserialize)]
                struct FileFmt {
                    findings: Vec<KnownEntry>,
                }
                match serde_json::from_str::<FileFmt>(&s) {
                    Ok(f) => KnownFindings { entries: f.findings },
                    Err(e) => {
                        eprintln!("pcverif: cannot parse known_findings.json: {e}");
                        std::process::exit(2);
                    }
                }
            }
            Err(_) => KnownFindings::default(),
        }
    }
    pub fn known(&self, sig: &str) -> Option<&KnownEntry> {
        self.entries
            .iter()
            .find(|e| e.status == "known" && e.signature == sig)
    }
}

/// Per-case reporting handle given to every check function.
pub struct CaseCtx<'a> {
    known: &'a KnownFindings,
    pub labels: BTreeSet<String>,
    pub nontrivial: bool,
    pub known_hits: Vec<String>,
    /// number of oracle assertions evaluated in this case
    pub asserts: u64,
    /// free-form derived description (goes into samples / replay files)
    pub derived: Option<Value>,
    /// when true, known findings are NOT tolerated (strict replay)
    pub strict: bool,
}

impl<'a> CaseCtx<'a> {
    pub fn new(known: &'a KnownFindings) -> Self {
        CaseCtx {
            known,
            labels: BTreeSet::new(),
            nontrivial: false,
            known_hits: Vec::new(),
            asserts: 0,
            derived: None,
            strict: false,
        }
    }
    pub fn new_like(other: &CaseCtx<'a>) -> CaseCtx<'a> {
        let mut c = CaseCtx::new(other.known);
        c.strict = other.strict;
        c
    }
    /// merge the reporting of a nested check into this one
    pub fn absorb(&mut self, inner: CaseCtx<'a>) {
        self.labels.extend(inner.labels);
        self.asserts += inner.asserts;
        self.known_hits.extend(inner.known_hits);
        self.nontrivial |= inner.nontrivial;
        if inner.derived.is_some() {
            self.derived = inner.derived;
        }
    }
    pub fn label(&mut self, l: &str) {
        self.labels.insert(l.to_string());
    }
    pub fn label_if(&mut self, c: bool, l: &str) {
        if c {
            self.label(l);
        }
    }
    pub fn nontrivial_if(&mut self, c: bool) {
        if c {
            self.nontrivial = true;
        }
    }
    /// Report a violated oracle. Returns Err(Failure) unless the signature is a recorded known finding.
    pub fn fail(&mut self, sig: impl Into<String>, msg: impl Into<String>) -> Result<(), Failure> {
        let sig = sig.into();
        if !self.strict && self.known.known(&sig).is_some() {
            self.known_hits.push(sig);
            return Ok(());
        }
        Err(Failure {
            sig,
            msg: msg.into(),
        })
    }
    /// assert helper
    pub fn check(
        &mut self,
        cond: bool,
        sig: impl Into<String>,
        msg: impl FnOnce() -> String,
    ) -> Result<(), Failure> {
        self.asserts += 1;
        if cond {
            Ok(())
        } else {
            self.fail(sig, msg())
        }
    }
    pub fn is_known(&self, sig: &str) -> bool {
        !self.strict && self.known.known(sig).is_some()
    }
}

#[derive(Clone, Debug, Default)]
pub struct UnitReport {
    pub name: String,
    pub evaluations: u64,
    pub asserts: u64,
    pub nontrivial: HashSet<u64>,
    pub nontrivial_count: u64,
    pub labels: BTreeMap<String, u64>,
    pub samples: Vec<Value>,
    pub known_hits: BTreeMap<String, u64>,
    pub failure: Option<(Failure, Value)>,
    pub wall_s: f64,
    pub exhaustive: bool,
}

impl UnitReport {
    pub fn merge(&mut self, o: UnitReport) {
        self.evaluations += o.evaluations;
        self.asserts += o.asserts;
        self.nontrivial_count += o.nontrivial_count;
        self.nontrivial.extend(o.nontrivial);
        for (k, v) in o.labels {
            *self.labels.entry(k).or_default() += v;
        }
        for s in o.samples {
            if self.samples.len() < 4 {
                self.samples.push(s);
            }
        }
        for (k, v) in o.known_hits {
            *self.known_hits.entry(k).or_default() += v;
        }
        if self.failure.is_none() {
            self.failure = o.failure;
        }
        self.wall_s += o.wall_s;
    }
}

pub struct RunCfg {
    pub tier: Tier,
    pub seed: u64,
    pub known: Arc<KnownFindings>,
}

/// A check unit: a named, independently seeded search.
pub trait Unit: Send + Sync {
    fn name(&self) -> String;
    /// number of deterministic shards this unit is split into for the pool
    fn shards(&self, _tier: Tier) -> usize {
        1
    }
    fn run(&self, cfg: &RunCfg, shard: usize, nshards: usize) -> UnitReport;
    /// Re-execute one saved case without the property-testing library.
    fn replay(&self, case: &Value, known: &KnownFindings, strict: bool)
        -> Result<Vec<String>, Failure>;
}

/// Generic proptest-backed unit.
pub struct PropUnit<C> {
    pub name: String,
    pub cases: Box<dyn Fn(Tier) -> u32 + Send + Sync>,
    pub shards: Box<dyn Fn(Tier) -> usize + Send + Sync>,
    pub strategy: Box<dyn Fn(Tier) -> BoxedStrategy<C> + Send + Sync>,
    pub check: Box<dyn Fn(&C, &mut CaseCtx) -> Result<(), Failure> + Send + Sync>,
}

impl<C: Debug + Clone + Serialize + DeserializeOwned + 'static> PropUnit<C> {
    pub fn new(
        name: impl Into<String>,
        cases_quick: u32,
        cases_thorough: u32,
        shards: usize,
        strategy: impl Fn(Tier) -> BoxedStrategy<C> + Send + Sync + 'static,
        check: impl Fn(&C, &mut CaseCtx) -> Result<(), Failure> + Send + Sync + 'static,
    ) -> Box<dyn Unit> {
        Box::new(PropUnit {
            name: name.into(),
            cases: Box::new(move |t| t.n(cases_quick, cases_thorough)),
            shards: Box::new(move |t| {
                if t.is_quick() {
                    shards
                } else {
                    // thorough runs have more cases: spread them wider
                    (shards * 2).min(16)
                }
            }),
            strategy: Box::new(strategy),
            check: Box::new(check),
        })
    }
}

struct Acc {
    frozen: bool,
    rep: UnitReport,
}

impl<C: Debug + Clone + Serialize + DeserializeOwned + 'static> Unit for PropUnit<C> {
    fn name(&self) -> String {
        self.name.clone()
    }
    fn shards(&self, tier: Tier) -> usize {
        (self.shards)(tier).max(1)
    }
    fn run(&self, cfg: &RunCfg, shard: usize, nshards: usize) -> UnitReport {
        let start = Instant::now();
        let total = (self.cases)(cfg.tier);
        let base = total / nshards as u32;
        let extra = if (shard as u32) < total % nshards as u32 { 1 } else { 0 };
        let cases = base + extra;
        let seed = mix_seed(cfg.seed, &[&self.name, &format!("shard{shard}")]);
        let mut seed_bytes = [0u8; 32];
        for i in 0..4 {
            seed_bytes[i * 8..(i + 1) * 8]
                .copy_from_slice(&mix_seed(seed, &[&format!("w{i}")]).to_le_bytes());
        }
        let acc = RefCell::new(Acc {
            frozen: false,
            rep: UnitReport {
                name: self.name.clone(),
                ..Default::default()
            },
        });
        if cases == 0 {
            return acc.into_inner().rep;
        }
        let config = Config {
            cases,
            failure_persistence: None,
            max_shrink_iters: if cfg.tier.is_quick() { 400 } else { 1500 },
            max_global_rejects: 1,
            rng_algorithm: RngAlgorithm::ChaCha,
            rng_seed: RngSeed::Fixed(seed),
            ..Config::default()
        };
        let rng = proptest::test_runner::TestRng::from_seed(RngAlgorithm::ChaCha, &seed_bytes);
        let mut runner = TestRunner::new_with_rng(config, rng);
        let strat = (self.strategy)(cfg.tier);
        let known = cfg.known.clone();
        let result = runner.run(&strat, |case| {
            let mut ctx = CaseCtx::new(&known);
            let r = guarded_case(&self.name, &*self.check, &case, &mut ctx);
            let mut a = acc.borrow_mut();
            if !a.frozen {
                a.rep.evaluations += 1;
                a.rep.asserts += ctx.asserts;
                for l in &ctx.labels {
                    *a.rep.labels.entry(l.clone()).or_default() += 1;
                }
                for k in &ctx.known_hits {
                    *a.rep.known_hits.entry(k.clone()).or_default() += 1;
                }
                if ctx.nontrivial {
                    a.rep.nontrivial_count += 1;
                    let js = serde_json::to_vec(&case).unwrap_or_default();
                    let fresh = a.rep.nontrivial.insert(fnv64(&js));
                    if fresh && a.rep.samples.len() < 3 {
                        let mut s = json!({ "unit": self.name, "case": serde_json::to_value(&case).unwrap_or(Value::Null),
                            "labels": ctx.labels.iter().cloned().collect::<Vec<_>>() });
                        if let Some(d) = &ctx.derived {
                            s["derived"] = d.clone();
                        }
                        a.rep.samples.push(s);
                    }
                }
            }
            match r {
                Ok(()) => Ok(()),
                Err(f) => {
                    a.frozen = true;
                    Err(TestCaseError::fail(format!("{} :: {}", f.sig, f.msg)))
                }
            }
        });
        let mut rep = acc.into_inner().rep;
        match result {
            Ok(()) => {}
            Err(TestError::Fail(_reason, shrunk)) => {
                // re-run the shrunk case to obtain its own signature/message
                let mut ctx = CaseCtx::new(&known);
                let f = match (self.check)(&shrunk, &mut ctx) {
                    Err(f) => f,
                    Ok(()) => Failure {
                        sig: format!("{}:unstable", self.name),
                        msg: "shrunk case did not reproduce (non-deterministic oracle?)".into(),
                    },
                };
                rep.failure = Some((f, serde_json::to_value(&shrunk).unwrap_or(Value::Null)));
            }
            Err(TestError::Abort(reason)) => {
                rep.failure = Some((
                    Failure {
                        sig: format!("{}:engine-abort", self.name),
                        msg: format!("proptest aborted: {reason}"),
                    },
                    Value::Null,
                ));
            }
        }
        rep.wall_s = start.elapsed().as_secs_f64();
        rep
    }
    fn replay(
        &self,
        case: &Value,
        known: &KnownFindings,
        strict: bool,
    ) -> Result<Vec<String>, Failure> {
        let c: C = serde_json::from_value(case.clone()).map_err(|e| Failure {
            sig: format!("{}:bad-replay-file", self.name),
            msg: format!("cannot decode case: {e}"),
        })?;
        let mut ctx = CaseCtx::new(known);
        ctx.strict = strict;
        (self.check)(&c, &mut ctx)?;
        Ok(ctx.known_hits)
    }
}

/// A unit that enumerates a fixed list of cases (exhaustive / table-driven), sharing the reporting path.
pub struct EnumUnit<C> {
    pub name: String,
    pub list: Box<dyn Fn(Tier, u64) -> Vec<C> + Send + Sync>,
    pub check: Box<dyn Fn(&C, &mut CaseCtx) -> Result<(), Failure> + Send + Sync>,
    pub nshards: usize,
}

impl<C: Debug + Clone + Serialize + DeserializeOwned + 'static> EnumUnit<C> {
    pub fn new(
        name: impl Into<String>,
        nshards: usize,
        list: impl Fn(Tier, u64) -> Vec<C> + Send + Sync + 'static,
        check: impl Fn(&C, &mut CaseCtx) -> Result<(), Failure> + Send + Sync + 'static,
    ) -> Box<dyn Unit> {
        Box::new(EnumUnit {
            name: name.into(),
            list: Box::new(list),
            check: Box::new(check),
            nshards,
        })
    }
}

impl<C: Debug + Clone + Serialize + DeserializeOwned + 'static> Unit for EnumUnit<C> {
    fn name(&self) -> String {
        self.name.clone()
    }
    fn shards(&self, _tier: Tier) -> usize {
        self.nshards.max(1)
    }
    fn run(&self, cfg: &RunCfg, shard: usize, nshards: usize) -> UnitReport {
        let start = Instant::now();
        let seed = mix_seed(cfg.seed, &[&self.name]);
        let all = (self.list)(cfg.tier, seed);
        let mut rep = UnitReport {
            name: self.name.clone(),
            ..Default::default()
        };
        for (i, case) in all.iter().enumerate() {
            if i % nshards != shard {
                continue;
            }
            let mut ctx = CaseCtx::new(&cfg.known);
            let r = guarded_case(&self.name, &*self.check, case, &mut ctx);
            rep.evaluations += 1;
            rep.asserts += ctx.asserts;
            for l in &ctx.labels {
                *rep.labels.entry(l.clone()).or_default() += 1;
            }
            for k in &ctx.known_hits {
                *rep.known_hits.entry(k.clone()).or_default() += 1;
            }
            if ctx.nontrivial {
                rep.nontrivial_count += 1;
                let js = serde_json::to_vec(case).unwrap_or_default();
                let fresh = rep.nontrivial.insert(fnv64(&js));
                if fresh && rep.samples.len() < 3 {
                    let mut s = json!({ "unit": self.name, "case": serde_json::to_value(case).unwrap_or(Value::Null),
                        "labels": ctx.labels.iter().cloned().collect::<Vec<_>>() });
                    if let Some(d) = &ctx.derived {
                        s["derived"] = d.clone();
                    }
                    rep.samples.push(s);
                }
            }
            if let Err(f) = r {
                rep.failure = Some((f, serde_json::to_value(case).unwrap_or(Value::Null)));
                break;
            }
        }
        rep.wall_s = start.elapsed().as_secs_f64();
        rep
    }
    fn replay(
        &self,
        case: &Value,
        known: &KnownFindings,
        strict: bool,
    ) -> Result<Vec<String>, Failure> {
        let c: C = serde_json::from_value(case.clone()).map_err(|e| Failure {
            sig: format!("{}:bad-replay-file", self.name),
            msg: format!("cannot decode case: {e}"),
        })?;
        let mut ctx = CaseCtx::new(known);
        ctx.strict = strict;
        (self.check)(&c, &mut ctx)?;
        Ok(ctx.known_hits)
    }
}

/// Static description of a property for the evidence file.
pub struct PropertySpec {
    pub id: &'static str,
    pub rule: &'static str,
    pub assumptions: Vec<&'static str>,
    pub units: Vec<Box<dyn Unit>>,
    /// generous hang guard for (quick, thorough), seconds
    pub watchdog_s: (u64, u64),
}

fn write_replay(prop: &str, unit: &str, f: &Failure, case: &Value) -> PathBuf {
    let dir = Path::new(&verif_dir()).join("replays").join(prop);
    let _ = std::fs::create_dir_all(&dir);
    let body = json!({
        "property": prop,
        "unit": unit,
        "signature": f.sig,
        "message": f.msg,
        "tier": crate::props::common::current_tier().name(),
        "case": case,
    });
    let text = serde_json::to_string_pretty(&body).unwrap();
    let h = fnv64(text.as_bytes());
    let fname = format!("{}-{:016x}.json", unit.replace([':', '/', ' '], "_"), h);
    let p = dir.join(fname);
    let _ = std::fs::write(&p, text);
    p
}

pub fn run_pool(units: &[Box<dyn Unit>], cfg: &RunCfg, width: usize) -> Vec<UnitReport> {
    // expand into jobs
    let mut jobs: Vec<(usize, usize, usize)> = Vec::new();
    for (ui, u) in units.iter().enumerate() {
        let n = u.shards(cfg.tier);
        for s in 0..n {
            jobs.push((ui, s, n));
        }
    }
    let next = Mutex::new(0usize);
    let results: Mutex<Vec<Option<UnitReport>>> = Mutex::new(vec![None; jobs.len()]);
    std::thread::scope(|sc| {
        for _ in 0..width.min(jobs.len()).max(1) {
            sc.spawn(|| loop {
                let j = {
                    let mut g = next.lock().unwrap();
                    let j = *g;
                    *g += 1;
                    j
                };
                if j >= jobs.len() {
                    break;
                }
                let (ui, s, n) = jobs[j];
                let rep = match std::panic::catch_unwind(std::panic::AssertUnwindSafe(|| {
                    units[ui].run(cfg, s, n)
                })) {
                    Ok(r) => r,
                    Err(p) => {
                        let msg = if let Some(s) = p.downcast_ref::<&str>() {
                            s.to_string()
                        } else if let Some(s) = p.downcast_ref::<String>() {
                            s.clone()
                        } else {
                            "?".into()
                        };
                        println!(
                            "INCONCLUSIVE: harness bug: unit {} panicked outside a guarded call: {}",
                            units[ui].name(),
                            msg
                        );
                        std::process::exit(2);
                    }
                };
                results.lock().unwrap()[j] = Some(rep);
            });
        }
    });
    // merge shards in job order
    let results = results.into_inner().unwrap();
    let mut merged: Vec<UnitReport> = units
        .iter()
        .map(|u| UnitReport {
            name: u.name(),
            ..Default::default()
        })
        .collect();
    for (j, r) in results.into_iter().enumerate() {
        let (ui, _, _) = jobs[j];
        let r = r.expect("job result");
        let wall = merged[ui].wall_s.max(r.wall_s);
        merged[ui].merge(r);
        merged[ui].wall_s = wall;
    }
    merged
}

pub struct RunOutcome {
    pub violations: Vec<(String, PathBuf)>,
    pub exit_code: i32,
}

/// Run one property: regress replays, generated search, evidence, VIOLATION / KNOWN-FINDING lines.
pub fn run_property(mut spec: PropertySpec, tier: Tier, seed: u64) -> i32 {
    let start = Instant::now();
    // development aid only (never used by the registered commands): restrict the run to units whose name contains a substring
    if let Ok(f) = std::env::var("VERIF_UNITS") {
        if !f.is_empty() {
            spec.units.retain(|u| u.name().contains(&f));
        }
    }
    let known = Arc::new(KnownFindings::load());
    let wd = if tier.is_quick() {
        spec.watchdog_s.0
    } else {
        spec.watchdog_s.1
    };
    {
        let id = spec.id;
        std::thread::spawn(move || {
            std::thread::sleep(std::time::Duration::from_secs(wd));
            println!("INCONCLUSIVE property={id} watchdog after {wd}s (reported as exit 2, not a violation)");
            std::process::exit(2);
        });
    }
    crate::props::common::set_tier(tier);
    let cfg = RunCfg {
        tier,
        seed,
        known: known.clone(),
    };
    let mut violations: Vec<(String, PathBuf, String)> = Vec::new();
    let mut known_hits: BTreeMap<String, u64> = BTreeMap::new();

    // 1. committed regression replays must pass
    let mut regress_run = 0u64;
    let rdir = Path::new(&verif_dir()).join("regress").join(spec.id);
    // VERIF_NO_REGRESS: development switch for measuring what the generators find on their own
    if let (Ok(rd), false) = (std::fs::read_dir(&rdir), std::env::var("VERIF_NO_REGRESS").is_ok()) {
        let mut files: Vec<PathBuf> = rd
            .filter_map(|e| e.ok().map(|e| e.path()))
            .filter(|p| p.extension().map(|x| x == "json").unwrap_or(false))
            .collect();
        files.sort();
        for f in files {
            let text = match std::fs::read_to_string(&f) {
                Ok(t) => t,
                Err(_) => continue,
            };
            let v: Value = match serde_json::from_str(&text) {
                Ok(v) => v,
                Err(e) => {
                    eprintln!("pcverif: unreadable regress file {}: {e}", f.display());
                    return 2;
                }
            };
            let uname = v["unit"].as_str().unwrap_or("");
            let Some(unit) = spec.units.iter().find(|u| u.name() == uname) else {
                if std::env::var("VERIF_UNITS").is_ok() {
                    continue; // development filter: the unit was deselected
                }
                eprintln!(
                    "pcverif: regress file {} names unknown unit {uname}",
                    f.display()
                );
                return 2;
            };
            regress_run += 1;
            let file_tier = if v["tier"].as_str() == Some("thorough") { Tier::Thorough } else { Tier::Quick };
            crate::props::common::set_tier(file_tier);
            let res = unit.replay(&v["case"], &known, false);
            crate::props::common::set_tier(tier);
            match res {
                Ok(hits) => {
                    for h in hits {
                        *known_hits.entry(h).or_default() += 1;
                    }
                }
                Err(fail) => {
                    violations.push((uname.to_string(), f.clone(), format!("{} :: {}", fail.sig, fail.msg)));
                }
            }
        }
    }

    // 2. generated search
    let reports = run_pool(&spec.units, &cfg, 16);

    let mut evaluations = 0u64;
    let mut asserts = 0u64;
    let mut distinct_nontrivial = 0u64;
    let mut samples: Vec<Value> = Vec::new();
    let mut unit_rows: Vec<Value> = Vec::new();
    let mut all_labels: BTreeMap<String, u64> = BTreeMap::new();
    for r in &reports {
        evaluations += r.evaluations;
        asserts += r.asserts;
        distinct_nontrivial += r.nontrivial.len() as u64;
        for (k, v) in &r.known_hits {
            *known_hits.entry(k.clone()).or_default() += v;
        }
        for (k, v) in &r.labels {
            *all_labels.entry(k.clone()).or_default() += v;
        }
        if let Some(s) = r.samples.first() {
            if samples.len() < 24 {
                samples.push(s.clone());
            }
        }
        unit_rows.push(json!({
            "unit": r.name,
            "evaluations": r.evaluations,
            "oracle_assertions": r.asserts,
            "nontrivial_cases": r.nontrivial_count,
            "distinct_nontrivial": r.nontrivial.len(),
            "labels": r.labels,
            "known_finding_hits": r.known_hits,
            "wall_s": (r.wall_s * 100.0).round() / 100.0,
            "failed": r.failure.is_some(),
        }));
        if let Some((f, case)) = &r.failure {
            let p = write_replay(spec.id, &r.name, f, case);
            violations.push((r.name.clone(), p, format!("{} :: {}", f.sig, f.msg)));
        }
    }
    // second samples pass so that small properties still show several cases
    for r in &reports {
        for s in r.samples.iter().skip(1) {
            if samples.len() < 12 {
                samples.push(s.clone());
            }
        }
    }

    // 3. report
    for (sig, n) in &known_hits {
        if let Some(e) = known.known(sig) {
            println!(
                "KNOWN-FINDING: property={} {} [signature {} hit {} time(s) and excluded from the search]",
                spec.id, e.what, sig, n
            );
        }
    }
    for (unit, path, msg) in &violations {
        println!("VIOLATION property={} replay={}", spec.id, path.display());
        println!("  unit={unit} {}", crate::util::trunc(msg, 600));
    }
    let wall = start.elapsed().as_secs_f64();
    let evidence = json!({
        "property_id": spec.id,
        "tier": tier.name(),
        "seed": seed,
        "level": "exploration",
        "coverage": {
            "evaluations": evaluations,
            "distinct_nontrivial": distinct_nontrivial,
            "rule": spec.rule,
            "samples": samples,
            "oracle_assertions": asserts,
            "regress_replays": regress_run,
            "class_labels": all_labels,
            "units": unit_rows,
            "known_findings_excluded": known_hits,
            "exhaustive": false,
            "cases_skipped_after_a_harness_panic": HARNESS_PANICS.load(std::sync::atomic::Ordering::SeqCst),
        },
        "assumptions": spec.assumptions,
        "wall_s": (wall * 100.0).round() / 100.0,
        "violations": violations.len(),
    });
    let edir = Path::new(&verif_dir()).join("evidence");
    let _ = std::fs::create_dir_all(&edir);
    let epath = edir.join(format!("{}.json", spec.id));
    if let Err(e) = std::fs::write(&epath, serde_json::to_string_pretty(&evidence).unwrap()) {
        eprintln!("pcverif: cannot write evidence {}: {e}", epath.display());
        return 2;
    }
    println!(
        "property={} tier={} seed={} units={} evaluations={} distinct_nontrivial={} assertions={} violations={} wall={:.1}s",
        spec.id,
        tier.name(),
        seed,
        reports.len(),
        evaluations,
        distinct_nontrivial,
        asserts,
        violations.len(),
        wall
    );
    let hp = HARNESS_PANICS.load(std::sync::atomic::Ordering::SeqCst);
    if hp > 0 {
        println!(
            "NOTE property={} {hp} case(s) skipped after a panic inside the harness itself (first: {})",
            spec.id,
            FIRST_HARNESS_PANIC.lock().unwrap().clone().unwrap_or_default()
        );
        if violations.is_empty() && hp * 50 > evaluations.max(1) {
            println!("INCONCLUSIVE property={} more than 2% of the cases were skipped", spec.id);
            return 2;
        }
    }
    if violations.is_empty() {
        0
    } else {
        1
    }
}

/// `pcverif replay <file>`: strict re-execution of a saved case (known findings are not tolerated).
pub fn replay_file(path: &str, specs: impl Fn(&str) -> Option<PropertySpec>) -> i32 {
    let text = match std::fs::read_to_string(path) {
        Ok(t) => t,
        Err(e) => {
            eprintln!("cannot read {path}: {e}");
            return 2;
        }
    };
    let v: Value = match serde_json::from_str(&text) {
        Ok(v) => v,
        Err(e) => {
            eprintln!("cannot parse {path}: {e}");
            return 2;
        }
    };
    let prop = v["property"].as_str().unwrap_or("").to_string();
    let uname = v["unit"].as_str().unwrap_or("").to_string();
    let Some(spec) = specs(&prop) else {
        eprintln!("unknown property {prop}");
        return 2;
    };
    let Some(unit) = spec.units.iter().find(|u| u.name() == uname) else {
        eprintln!("unknown unit {uname}");
        return 2;
    };
    let known = KnownFindings::load();
    let file_tier = if v["tier"].as_str() == Some("thorough") { Tier::Thorough } else { Tier::Quick };
    crate::props::common::set_tier(file_tier);
    match unit.replay(&v["case"], &known, true) {
        Ok(_) => {
            println!("replay property={prop} unit={uname}: case passes");
            0
        }
        Err(f) => {
            println!("VIOLATION property={prop} replay={path}");
            println!("  unit={uname} {} :: {}", f.sig, f.msg);
            1
        }
    }
}

pub fn boxed<S: Strategy + 'static>(s: S) -> BoxedStrategy<S::Value> {
    s.boxed()
}
