//! Interpreter: turns a raw scenario into library calls for any `Scheme`.

use crate::engine::Tier;
use crate::model::Scn;
use crate::schemes::*;
use crate::types::sponge;
use crate::util::{guard, permutation, pick, rng, Out};
use ark_crypto_primitives::sponge::poseidon::PoseidonSponge;
use ark_poly::Polynomial;
use ark_poly_commit::{
    Evaluations, LabeledCommitment, LabeledPolynomial, PolynomialCommitment, QuerySet,
};
use serde_json::{json, Value};
use std::collections::{BTreeMap, BTreeSet};

const LETTERS: [&str; 8] = ["m", "a", "z", "k", "c", "x", "f", "t"];

pub struct PolyMeta {
    pub shape: &'static str,
    pub deg: usize,
    pub bound: Option<usize>,
    pub hiding: Option<usize>,
}

/// One point label of the query set.
#[derive(Clone, Debug)]
pub struct Group<Pt> {
    pub label: String,
    pub value_idx: usize,
    pub point: Pt,
    /// indices of the queried polynomials, in ascending *label* order (the library's own order)
    pub polys: Vec<usize>,
}

pub struct Session<S: Scheme> {
    pub keys: Keys<S>,
    pub polys: Vec<LabeledPolynomial<S::F, S::P>>,
    pub meta: Vec<PolyMeta>,
    pub comms: Vec<LabeledCommitment<Comm<S>>>,
    pub states: Vec<State<S>>,
    pub point_vals: Vec<S::Pt>,
    /// groups in BTreeMap order of the point labels (= proof order of batch calls)
    pub groups: Vec<Group<S::Pt>>,
    pub perm_p: Vec<usize>,
    pub perm_v: Vec<usize>,
    pub seeds: [u64; 3],
    pub pre: u64,
}

pub fn poly_labels(n: usize, names: u32) -> Vec<String> {
    let p = permutation(LETTERS.len(), names);
    (0..n)
        .map(|i| format!("{}{}", LETTERS[p[i % LETTERS.len()]], i))
        .collect()
}

pub fn point_labels(n: usize, names: u32) -> Vec<String> {
    let p = permutation(LETTERS.len(), names.wrapping_mul(31).wrapping_add(7));
    (0..n)
        .map(|i| format!("q{}{}", LETTERS[p[i % LETTERS.len()]], i))
        .collect()
}

impl<S: Scheme> Session<S> {
    /// Build keys, polynomials and commitments. `Err` = a stage refused or aborted an in-domain request.
    pub fn build(scn: &Scn, tier: Tier) -> Result<Self, String> {
        let keys = S::keys(&scn.key, tier)?;
        Self::build_with_keys(scn, keys)
    }

    pub fn build_with_keys(scn: &Scn, keys: Keys<S>) -> Result<Self, String> {
        let info = &keys.info;
        let n = scn.polys.len();
        let labels = poly_labels(n, scn.names);
        let mut polys = Vec::new();
        let mut meta = Vec::new();
        let first_point: Option<S::Pt> = scn.points.first().map(|r| S::point(info, r));
        for (i, r) in scn.polys.iter().enumerate() {
            let mut built = S::poly(info, r);
            if r.shape == 8 {
                if let Some(z) = &first_point {
                    // p - p(z): the claimed value at the first point value is zero
                    let v = built.poly.evaluate(z);
                    built.poly += &S::constant(info, -v);
                    built.shape = "vanishes_at_first_point";
                }
            }
            let deg = built.poly.degree();
            let (bound, hiding) = choose_bound_hiding::<S>(info, deg, r.bound, r.hiding);
            polys.push(LabeledPolynomial::new(
                labels[i].clone(),
                built.poly,
                bound,
                hiding,
            ));
            meta.push(PolyMeta {
                shape: built.shape,
                deg,
                bound,
                hiding,
            });
        }
        let perm_p = permutation(n, scn.perm_p);
        let perm_v = permutation(n, scn.perm_v);

        // commit in the prover's order, store by original index
        let ordered: Vec<&LabeledPolynomial<S::F, S::P>> = perm_p.iter().map(|i| &polys[*i]).collect();
        let mut crng = rng(scn.seeds[0]);
        let (c, s) = guard(|| S::PC::commit(&keys.ck, ordered, Some(&mut crng))).need("commit")?;
        if c.len() != n || s.len() != n {
            return Err(format!(
                "commit returned {} commitments / {} states for {} polynomials",
                c.len(),
                s.len(),
                n
            ));
        }
        let mut comms: Vec<Option<LabeledCommitment<Comm<S>>>> = (0..n).map(|_| None).collect();
        let mut states: Vec<Option<State<S>>> = (0..n).map(|_| None).collect();
        for ((c, s), i) in c.into_iter().zip(s).zip(perm_p.iter()) {
            if c.label() != &labels[*i] {
                return Err(format!(
                    "commit returned label {} at the position of {}",
                    c.label(),
                    labels[*i]
                ));
            }
            comms[*i] = Some(c);
            states[*i] = Some(s);
        }
        let comms: Vec<_> = comms.into_iter().map(|c| c.unwrap()).collect();
        let states: Vec<_> = states.into_iter().map(|c| c.unwrap()).collect();

        // points and query groups
        let point_vals: Vec<S::Pt> = scn.points.iter().map(|r| S::point(info, r)).collect();
        let nl = scn.labels.len();
        let plabels = point_labels(nl, scn.names);
        let mut groups_map: BTreeMap<String, Group<S::Pt>> = BTreeMap::new();
        for (j, l) in scn.labels.iter().enumerate() {
            let vi = pick((l.value as u16) << 8, point_vals.len());
            // non-empty subset of the polynomials
            let mask_space = (1usize << n) - 1;
            let mask = 1 + pick((l.subset as u16) << 8, mask_space);
            let mut idxs: Vec<usize> = (0..n).filter(|i| mask >> i & 1 == 1).collect();
            idxs.sort_by(|a, b| labels[*a].cmp(&labels[*b]));
            groups_map.insert(
                plabels[j].clone(),
                Group {
                    label: plabels[j].clone(),
                    value_idx: vi,
                    point: point_vals[vi].clone(),
                    polys: idxs,
                },
            );
        }
        let groups: Vec<_> = groups_map.into_values().collect();
        Ok(Session {
            keys,
            polys,
            meta,
            comms,
            states,
            point_vals,
            groups,
            perm_p,
            perm_v,
            seeds: scn.seeds,
            pre: scn.pre,
        })
    }

    pub fn n(&self) -> usize {
        self.polys.len()
    }

    pub fn sponge(&self) -> PoseidonSponge<S::F> {
        sponge::<S::F>(self.pre)
    }

    pub fn query_set(&self) -> QuerySet<S::Pt> {
        let mut q = BTreeSet::new();
        for g in &self.groups {
            for i in &g.polys {
                q.insert((
                    self.polys[*i].label().clone(),
                    (g.label.clone(), g.point.clone()),
                ));
            }
        }
        q
    }

    pub fn true_value(&self, i: usize, z: &S::Pt) -> S::F {
        self.polys[i].polynomial().evaluate(z)
    }

    pub fn evaluations(&self) -> Evaluations<S::Pt, S::F> {
        let mut e = BTreeMap::new();
        for g in &self.groups {
            for i in &g.polys {
                e.insert(
                    (self.polys[*i].label().clone(), g.point.clone()),
                    self.true_value(*i, &g.point),
                );
            }
        }
        e
    }

    /// the order in which single-point `open`/`check` list the polynomials of a group: the prover's
    /// permutation restricted to the group (consistent on both sides, since these calls are positional)
    pub fn group_order(&self, g: &Group<S::Pt>) -> Vec<usize> {
        self.perm_p
            .iter()
            .cloned()
            .filter(|i| g.polys.contains(i))
            .collect()
    }

    pub fn open_idx(
        &self,
        order: &[usize],
        point: &S::Pt,
        sp: &mut PoseidonSponge<S::F>,
        seed: u64,
    ) -> Out<Proof<S>> {
        let ps: Vec<_> = order.iter().map(|i| &self.polys[*i]).collect();
        let cs: Vec<_> = order.iter().map(|i| &self.comms[*i]).collect();
        let ss: Vec<_> = order.iter().map(|i| &self.states[*i]).collect();
        let mut r = rng(seed);
        guard(|| S::PC::open(&self.keys.ck, ps, cs, point, sp, ss, Some(&mut r)))
    }

    pub fn check_idx(
        &self,
        order: &[usize],
        point: &S::Pt,
        values: Vec<S::F>,
        proof: &Proof<S>,
        sp: &mut PoseidonSponge<S::F>,
        seed: u64,
    ) -> Out<bool> {
        let cs: Vec<_> = order.iter().map(|i| &self.comms[*i]).collect();
        let mut r = rng(seed);
        guard(|| S::PC::check(&self.keys.vk, cs, point, values, proof, sp, Some(&mut r)))
    }

    pub fn check_comms(
        &self,
        comms: Vec<&LabeledCommitment<Comm<S>>>,
        point: &S::Pt,
        values: Vec<S::F>,
        proof: &Proof<S>,
        sp: &mut PoseidonSponge<S::F>,
        seed: u64,
    ) -> Out<bool> {
        let mut r = rng(seed);
        guard(|| S::PC::check(&self.keys.vk, comms, point, values, proof, sp, Some(&mut r)))
    }

    pub fn batch_open(
        &self,
        qs: &QuerySet<S::Pt>,
        sp: &mut PoseidonSponge<S::F>,
        seed: u64,
    ) -> Out<BatchProof<S>> {
        let ps: Vec<_> = self.perm_p.iter().map(|i| &self.polys[*i]).collect();
        let cs: Vec<_> = self.perm_p.iter().map(|i| &self.comms[*i]).collect();
        let ss: Vec<_> = self.perm_p.iter().map(|i| &self.states[*i]).collect();
        let mut r = rng(seed);
        guard(|| S::PC::batch_open(&self.keys.ck, ps, cs, qs, sp, ss, Some(&mut r)))
    }

    pub fn batch_check(
        &self,
        comms: Vec<&LabeledCommitment<Comm<S>>>,
        qs: &QuerySet<S::Pt>,
        evals: &Evaluations<S::Pt, S::F>,
        proof: &BatchProof<S>,
        sp: &mut PoseidonSponge<S::F>,
        seed: u64,
    ) -> Out<bool> {
        let mut r = rng(seed);
        guard(|| S::PC::batch_check(&self.keys.vk, comms, qs, evals, proof, sp, &mut r))
    }

    /// the single-point claim (group `g`, polynomials `order`, claimed `values`) presented to the batch
    /// verifier as a one-label query set with a one-element proof list
    pub fn batch_check_group(
        &self,
        g: &Group<S::Pt>,
        order: &[usize],
        values: &[S::F],
        proof: &Proof<S>,
        sp: &mut PoseidonSponge<S::F>,
        seed: u64,
    ) -> Out<bool> {
        let mut qs = BTreeSet::new();
        let mut ev = BTreeMap::new();
        for (i, v) in order.iter().zip(values) {
            qs.insert((self.polys[*i].label().clone(), (g.label.clone(), g.point.clone())));
            ev.insert((self.polys[*i].label().clone(), g.point.clone()), *v);
        }
        let bp: BatchProof<S> = vec![proof.clone()].into();
        self.batch_check(self.verifier_comms(), &qs, &ev, &bp, sp, seed)
    }

    pub fn verifier_comms(&self) -> Vec<&LabeledCommitment<Comm<S>>> {
        self.perm_v.iter().map(|i| &self.comms[*i]).collect()
    }

    pub fn describe(&self) -> Value {
        json!({
            "scheme": S::NAME,
            "key": self.keys.info.desc,
            "polys": self.polys.iter().zip(&self.meta).map(|(p, m)| json!({
                "label": p.label(), "shape": m.shape, "deg": m.deg, "bound": m.bound, "hiding": m.hiding
            })).collect::<Vec<_>>(),
            "groups": self.groups.iter().map(|g| json!({
                "point_label": g.label, "point_value_idx": g.value_idx,
                "polys": g.polys.iter().map(|i| self.polys[*i].label().clone()).collect::<Vec<_>>()
            })).collect::<Vec<_>>(),
            "prover_order": self.perm_p,
            "verifier_order": self.perm_v,
        })
    }
}

/// Degree bound and hiding bound a polynomial of degree `deg` gets under this key.
pub fn choose_bound_hiding<S: Scheme>(
    info: &KeyInfo,
    deg: usize,
    bound_raw: u16,
    hiding_raw: u8,
) -> (Option<usize>, Option<usize>) {
    let bound = if S::HAS_BOUNDS && bound_raw != 0 {
        let c = info.bounds_for(deg);
        if c.is_empty() {
            None
        } else {
            Some(c[pick(bound_raw - 1, c.len())])
        }
    } else {
        None
    };
    let hiding = if S::HAS_HIDING && hiding_raw != 0 {
        let mut hmax = info.hiding;
        if S::HIDING_LE_BOUND {
            if let Some(b) = bound {
                hmax = hmax.min(b);
            }
        }
        if hmax == 0 {
            None
        } else {
            Some(1 + pick(((hiding_raw - 1) as u16) << 8, hmax))
        }
    } else {
        None
    };
    (bound, hiding)
}
