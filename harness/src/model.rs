//! The scenario model: plain raw choices (small integers) that every scheme adapter interprets
//! *constructively* — every dependent quantity is mapped into the range the earlier choices allow,
//! so no generated case is ever discarded and shrinking stays monotone.

use crate::util::FRaw;
use proptest::prelude::*;
use serde::{Deserialize, Serialize};

#[derive(Clone, Debug, Serialize, Deserialize)]
pub struct KeyRaw {
    /// first size choice (max degree / number of variables)
    pub a: u16,
    /// second size choice (supported degree / degree for PST13)
    pub b: u16,
    /// third size choice (supported degree for PST13, parameter set for the code-based schemes)
    pub c: u16,
    /// enforced degree bounds as raw choices (None = `None` passed to trim)
    pub bounds: Option<Vec<u16>>,
    /// supported hiding bound choice
    pub hiding: u8,
    /// setup RNG seed, from a small pool so universal parameters can be memoised
    pub seed: u8,
}

#[derive(Clone, Debug, Serialize, Deserialize)]
pub struct PolyRaw {
    pub shape: u8,
    pub deg: u16,
    /// 0 = no degree bound, otherwise index choice among the admissible enforced bounds
    pub bound: u16,
    /// 0 = not hiding, otherwise choice of the hiding bound
    pub hiding: u8,
    pub seed: u64,
}

#[derive(Clone, Debug, Serialize, Deserialize)]
pub struct LabelRaw {
    /// which point value this point label carries
    pub value: u8,
    /// bitmask choice of the polynomials queried under this label (made non-empty by the interpreter)
    pub subset: u8,
}

#[derive(Clone, Debug, Serialize, Deserialize)]
pub struct Scn {
    pub key: KeyRaw,
    pub polys: Vec<PolyRaw>,
    pub points: Vec<FRaw>,
    pub labels: Vec<LabelRaw>,
    /// permutation of the prover's (polynomial, commitment, state) lists; 0 = identity
    pub perm_p: u32,
    /// independent permutation of the verifier's commitment list in batch calls; 0 = identity
    pub perm_v: u32,
    /// shuffles the label alphabet so label order differs from index order; 0 = plain
    pub names: u32,
    /// commit RNG, open RNG, verifier RNG
    pub seeds: [u64; 3],
    /// sponge pre-state (0 = fresh sponge)
    pub pre: u64,
}

pub fn fraw() -> impl Strategy<Value = FRaw> {
    prop_oneof![
        1 => Just(FRaw::Zero),
        1 => Just(FRaw::One),
        1 => Just(FRaw::MinusOne),
        2 => (0u8..=20).prop_map(FRaw::Small),
        6 => any::<u64>().prop_map(FRaw::Rand),
    ]
}

/// a non-special field element (used for points, where 0 and ±1 are less interesting than for coefficients)
pub fn fraw_point() -> impl Strategy<Value = FRaw> {
    prop_oneof![
        1 => Just(FRaw::Zero),
        1 => Just(FRaw::One),
        2 => (0u8..=20).prop_map(FRaw::Small),
        8 => any::<u64>().prop_map(FRaw::Rand),
    ]
}

pub fn perm_seed() -> impl Strategy<Value = u32> {
    prop_oneof![1 => Just(0u32), 3 => 1u32..u32::MAX]
}

pub fn key_raw() -> impl Strategy<Value = KeyRaw> {
    (
        any::<u16>(),
        any::<u16>(),
        any::<u16>(),
        prop_oneof![
            1 => Just(None),
            4 => proptest::collection::vec(any::<u16>(), 0..5).prop_map(Some),
        ],
        any::<u8>(),
        0u8..4,
    )
        .prop_map(|(a, b, c, bounds, hiding, seed)| KeyRaw {
            a,
            b,
            c,
            bounds,
            hiding,
            seed,
        })
}

pub fn poly_raw() -> impl Strategy<Value = PolyRaw> {
    (
        prop_oneof![
            1 => Just(0u8), // zero
            1 => Just(1u8), // constant
            4 => Just(2u8), // random of chosen degree
            2 => Just(3u8), // low-order zeros
            1 => Just(4u8), // explicit high zeros (normalised away)
            2 => Just(5u8), // sparse
            2 => Just(6u8), // maximal degree
            1 => Just(7u8), // single monomial
            1 => Just(8u8), // random, then shifted by a constant so that it vanishes at the first point value
        ],
        any::<u16>(),
        prop_oneof![2 => Just(0u16), 3 => 1u16..=u16::MAX],
        prop_oneof![2 => Just(0u8), 3 => 1u8..=u8::MAX],
        any::<u64>(),
    )
        .prop_map(|(shape, deg, bound, hiding, seed)| PolyRaw {
            shape,
            deg,
            bound,
            hiding,
            seed,
        })
}

pub fn label_raw() -> impl Strategy<Value = LabelRaw> {
    (any::<u8>(), any::<u8>()).prop_map(|(value, subset)| LabelRaw { value, subset })
}

pub fn scn(max_polys: usize) -> impl Strategy<Value = Scn> {
    scn_with(1, max_polys, 1)
}

pub fn scn_with(min_polys: usize, max_polys: usize, min_labels: usize) -> impl Strategy<Value = Scn> {
    (
        key_raw(),
        proptest::collection::vec(poly_raw(), min_polys..=max_polys),
        proptest::collection::vec(fraw_point(), 1..=3),
        proptest::collection::vec(label_raw(), min_labels..=4),
        perm_seed(),
        perm_seed(),
        perm_seed(),
        any::<[u64; 3]>(),
        prop_oneof![2 => Just(0u64), 1 => any::<u64>()],
    )
        .prop_map(
            |(key, polys, points, labels, perm_p, perm_v, names, seeds, pre)| Scn {
                key,
                polys,
                points,
                labels,
                perm_p,
                perm_v,
                names,
                seeds,
                pre,
            },
        )
}
