//! The adversarial-proof catalogue (DESIGN §3.4): scheme-specific proof mutations, expressed as small
//! programs of raw operations so that combinations are generated and shrunk as one value.

use crate::lincode::{self, Lin, MProof};
use crate::schemes::*;
use crate::session::Session;
use crate::types::*;
use crate::util::rng;
use ark_ec::{AffineRepr, CurveGroup};
use ark_ff::{One, UniformRand, Zero};
use ark_poly_commit::{hyrax::HyraxProof, ipa_pc, kzg10, marlin_pst13_pc};
use proptest::prelude::*;
use rand_core::RngCore;
use serde::{Deserialize, Serialize};

#[derive(Clone, Debug, Serialize, Deserialize)]
pub struct OpRaw {
    pub op: u8,
    pub arg: u16,
    pub seed: u64,
}

pub fn op_raw() -> impl Strategy<Value = OpRaw> {
    (any::<u8>(), any::<u16>(), any::<u64>()).prop_map(|(op, arg, seed)| OpRaw { op, arg, seed })
}

pub struct Mutated<S: Scheme> {
    pub proof: Proof<S>,
    /// claimed values implied by the mutation (e.g. <v', a> after changing v); None = unchanged
    pub values: Option<Vec<S::F>>,
    pub desc: Vec<String>,
    /// log2 of the probability that the mutation passes by the scheme's own (toy-size) soundness error
    pub guard_log2: Option<f64>,
    /// position (within the opened group) whose claim the mutation makes interesting to falsify
    pub focus: Option<usize>,
}

pub trait Attack: Scheme {
    fn mutate(
        sess: &Session<Self>,
        order: &[usize],
        point: &Self::Pt,
        values: &[Self::F],
        proof: &Proof<Self>,
        ops: &[OpRaw],
    ) -> Mutated<Self>;

    /// A scheme-specific forgery built with the library's own prover (not a mutation of an honest
    /// proof): a proof and the (false) values it is meant to prove against the session's honest
    /// commitments. `None` = the scheme has none in the catalogue, or the prover refused.
    fn forge(_sess: &Session<Self>, _order: &[usize], _point: &Self::Pt, _sel: u64) -> Option<Forged<Self>> {
        None
    }
    const HAS_FORGE: bool = false;
}

pub struct Forged<S: Scheme> {
    pub proof: Proof<S>,
    pub claimed: Vec<S::F>,
    /// the point the forgery is made for, when it is not the one the caller proposed
    pub point: Option<S::Pt>,
    pub desc: String,
    /// log2 of the probability that the forgery passes by the scheme's own (toy-size) soundness error
    pub guard_log2: Option<f64>,
}

/// Linear-code schemes, Fiat-Shamir omission: the forger derives the column positions from the transcript
/// *without* the opened vector v, then adds to the honest v a message whose encoding vanishes on exactly
/// those positions (and whose inner product with the evaluation vector is non-zero). Columns and paths are
/// the authentic ones. A verifier that binds v before sampling positions looks somewhere else and rejects.
pub fn lin_fs_omission_forge<S: Lin + Attack>(sess: &Session<S>, order: &[usize], point: &S::Pt, sel: u64) -> Option<Forged<S>> {
    use ark_crypto_primitives::sponge::CryptographicSponge;
    if order.len() != 1 {
        return None;
    }
    let ck = &sess.keys.ck;
    let p = sess.polys[order[0]].polynomial();
    let (n_rows, n_cols, rows, ext) = lincode::ref_matrices::<S>(ck, p).ok()?;
    if n_cols < 2 || n_cols > 96 {
        return None;
    }
    let cols = lincode::columns_of(&ext);
    let n_ext = cols.len();
    let leaves: Vec<Vec<u8>> = cols.iter().map(|c| lincode::col_hash(c)).collect();
    let root = lincode::ref_root(&leaves);
    let t = lincode::expected_t::<Fr>(S::sec_param(ck), S::dist(ck), n_ext)?;
    let (a, b) = lincode::tensor::<S>(point, n_cols, n_rows);
    let row_comb = |coef: &[Fr]| -> Vec<Fr> { (0..n_cols).map(|j| (0..n_rows).fold(Fr::zero(), |acc, i| acc + coef[i] * rows[i][j])).collect() };
    let mut sp = sess.sponge();
    sp.absorb(&crate::util::ser(&root));
    let mut wf_out = None;
    if S::wf(ck) {
        let r = sp.squeeze_field_elements::<Fr>(n_rows);
        let w = row_comb(&r);
        sp.absorb(&w);
        wf_out = Some(w);
    }
    sp.absorb(&S::point_vec(point));
    // v is NOT absorbed by the forger
    let idx = lincode::ref_indices(n_ext, t, &mut sp);
    let mut distinct = idx.clone();
    distinct.sort();
    distinct.dedup();
    if distinct.len() >= n_cols {
        return None;
    }
    let y = lincode::message_vanishing_on::<S>(ck, n_cols, &distinct, sel >> 8)?;
    let shift = lincode::inner(&y, &a);
    if shift.is_zero() {
        return None;
    }
    let v: Vec<Fr> = row_comb(&b).iter().zip(&y).map(|(x, d)| *x + d).collect();
    let claimed = vec![lincode::inner(&v, &a)];
    let columns: Vec<Vec<Fr>> = idx.iter().map(|q| cols[*q].clone()).collect();
    let paths = idx.iter().map(|q| lincode::ref_path(&leaves, *q)).collect();
    let mp = vec![MProof { opening: lincode::MSingle { paths, v, columns }, well_formedness: wf_out }];
    let proof = lincode::proofs_unmirror::<S>(&mp).ok()?;
    Some(Forged {
        point: None,
        proof,
        claimed,
        desc: format!("Fiat-Shamir omission forgery: positions derived without absorbing v, then v += a message whose encoding vanishes on the {} queried positions ({n_rows} x {n_cols} matrix, {n_ext} codeword positions)", distinct.len()),
        // a verifier that does bind v draws its own t positions; the forgery survives if they all fall into the set
        guard_log2: Some(t as f64 * ((distinct.len() as f64) / (n_ext as f64)).log2()),
    })
}

/// Linear-code schemes, "agreement on a window of the codeword": q_0 = p_0 + (a message whose encoding
/// vanishes on the first m codeword positions, added to the first matrix row), so that the encoded
/// matrices of p_0 and q_0 have identical columns below m. The library's own prover runs on (q, state_q)
/// against commitment(p); the opened columns and authentication paths are then replaced by the authentic
/// ones of p at the positions the proof opened. A verifier that samples all of the codeword catches a
/// differing column with overwhelming probability; one that only looks at a window does not.
pub fn lin_window_forge<S: Lin + Attack>(sess: &Session<S>, order: &[usize], point: &S::Pt, sel: u64) -> Option<Forged<S>>
where
    S::P: ark_poly::Polynomial<Fr>,
{
    use ark_poly::Polynomial;
    use ark_poly_commit::{LabeledPolynomial, PolynomialCommitment};
    let ck = &sess.keys.ck;
    let p0 = sess.polys[order[0]].polynomial();
    let (n_rows, n_cols, _rows, ext0) = lincode::ref_matrices::<S>(ck, p0).ok()?;
    let n_ext = ext0[0].len();
    if n_cols < 2 || n_cols > 96 {
        return None;
    }
    let m = if (sel >> 40) % 3 == 0 { (n_cols / 2).max(1) } else { n_cols - 1 };
    let x = lincode::message_vanishing_on_prefix::<S>(ck, n_cols, m, sel >> 8)?;
    let mut qv = lincode::poly_vec::<S>(p0);
    let full = qv.len();
    if qv.len() < n_cols {
        qv.resize(n_cols, Fr::zero());
    }
    for (j, xj) in x.iter().enumerate() {
        qv[j] += *xj;
    }
    // the polynomial type fixes the vector length for multilinear extensions; a univariate one may grow
    let q0 = S::from_vec(qv.clone(), p0);
    if lincode::poly_vec::<S>(&q0).len() < full.min(n_cols) || lincode::ref_matrices::<S>(ck, &q0).map(|r| (r.0, r.1)).ok()? != (n_rows, n_cols) {
        return None;
    }
    let mut lqs = Vec::new();
    for (k, i) in order.iter().enumerate() {
        let poly = if k == 0 { q0.clone() } else { sess.polys[*i].polynomial().clone() };
        lqs.push(LabeledPolynomial::new(sess.polys[*i].label().clone(), poly, None, None));
    }
    let mut r0 = rng(sel ^ 0x77);
    let crate::util::Out::Ok((_cq, sq)) = crate::util::guard(|| S::PC::commit(ck, lqs.iter(), Some(&mut r0))) else { return None };
    let cs: Vec<_> = order.iter().map(|i| &sess.comms[*i]).collect();
    let mut sp = sess.sponge();
    let mut r1 = rng(sel ^ 0x78);
    let crate::util::Out::Ok(fp) = crate::util::guard(|| S::PC::open(ck, lqs.iter(), cs, point, &mut sp, sq.iter(), Some(&mut r1))) else { return None };
    let mut mp = lincode::proofs_mirror::<S>(&fp).ok()?;
    if mp.len() != order.len() {
        return None;
    }
    let mut t_first = 0usize;
    for (k, i) in order.iter().enumerate() {
        let (_, _, _, ext) = lincode::ref_matrices::<S>(ck, sess.polys[*i].polynomial()).ok()?;
        let cols = lincode::columns_of(&ext);
        let leaves: Vec<Vec<u8>> = cols.iter().map(|c| lincode::col_hash(c)).collect();
        if k == 0 {
            t_first = mp[k].opening.paths.len();
        }
        for j in 0..mp[k].opening.paths.len() {
            let q = mp[k].opening.paths[j].leaf_index;
            if q >= cols.len() || j >= mp[k].opening.columns.len() {
                return None;
            }
            mp[k].opening.columns[j] = cols[q].clone();
            mp[k].opening.paths[j] = lincode::ref_path(&leaves, q);
        }
    }
    let proof = lincode::proofs_unmirror::<S>(&mp).ok()?;
    let claimed: Vec<Fr> = lqs.iter().map(|q| q.polynomial().evaluate(point)).collect();
    // chance that t uniformly drawn positions all fall into the window
    // (positions are drawn with replacement, so this holds whether or not t was capped at the codeword length)
    let guard = t_first as f64 * ((m as f64) / (n_ext as f64)).log2();
    Some(Forged {
        point: None,
        proof,
        claimed,
        desc: format!("prover run on q = p + (message whose encoding vanishes on the first {m} of {n_ext} codeword positions), columns and paths re-authenticated from p ({n_rows} x {n_cols} matrix, t = {t_first})"),
        guard_log2: Some(guard),
    })
}

fn rand_g1(seed: u64) -> G1A {
    G1::rand(&mut rng(seed)).into_affine()
}

fn nz<F: UniformRand + Zero>(seed: u64) -> F {
    let mut g = rng(seed);
    loop {
        let x = F::rand(&mut g);
        if !x.is_zero() {
            return x;
        }
    }
}

// ------------------------------------------------------------------------------------------------
// KZG-style single-element proofs (Marlin, Sonic)
// ------------------------------------------------------------------------------------------------

pub fn mutate_kzg_proof(p: &kzg10::Proof<E>, g: G1A, ops: &[OpRaw]) -> (kzg10::Proof<E>, Vec<String>) {
    let mut p = *p;
    let mut d = Vec::new();
    for o in ops {
        match o.op % 8 {
            0 => {
                p.w = rand_g1(o.seed);
                d.push("w := random".into());
            }
            1 => {
                p.w = G1A::zero();
                d.push("w := identity".into());
            }
            2 => {
                p.random_v = Some(Fr::rand(&mut rng(o.seed)));
                d.push("random_v := Some(random)".into());
            }
            3 => {
                p.random_v = None;
                d.push("random_v := None".into());
            }
            4 => {
                p.random_v = Some(p.random_v.unwrap_or(Fr::zero()) + nz::<Fr>(o.seed));
                d.push("random_v += delta".into());
            }
            5 => {
                p.w = (-p.w.into_group()).into_affine();
                d.push("w := -w".into());
            }
            6 => {
                p.w = (p.w.into_group() + g).into_affine();
                d.push("w := w + G".into());
            }
            _ => {
                p.w = (p.w.into_group() * nz::<Fr>(o.seed)).into_affine();
                d.push("w := k*w".into());
            }
        }
    }
    (p, d)
}

impl Attack for Marlin {
    const HAS_FORGE: bool = true;
    /// "Root of the combined challenge polynomial": for a degree-bounded polynomial the verifier's pairing
    /// equation is about (xi + xi' X^s)(p - v), s = max_degree - bound. A forger who assumes xi' = xi opens
    /// at a point z with z^s = -1, where that polynomial vanishes for *every* v, and computes the witness
    /// of xi (1 + X^s)(p - v') / (X - z) from the public parameters. With two independent challenges the
    /// numerator does not vanish at z and the witness cannot verify.
    fn forge(sess: &Session<Self>, order: &[usize], _point: &Fr, sel: u64) -> Option<Forged<Self>> {
        use ark_ff::{FftField, Field};
        use ark_poly::{DenseUVPolynomial, Polynomial};
        // one non-hiding degree-bounded polynomial of the group
        let i = *order.iter().find(|i| sess.meta[**i].bound.is_some() && sess.meta[**i].hiding.is_none())?;
        if order.len() != 1 {
            return None;
        }
        let b = sess.meta[i].bound?;
        let max = sess.keys.info.max_degree;
        let s = max - b;
        if s == 0 {
            return None;
        }
        // z with z^s = -1: a root of unity of order 2^(k+1) where 2^k exactly divides s
        let k = s.trailing_zeros() as u64;
        let z = Fr::get_root_of_unity(1u64 << (k + 1))?;
        if z.pow([s as u64]) != -Fr::one() {
            return None;
        }
        let p = sess.polys[i].polynomial();
        let vfalse = p.evaluate(&z) + nz::<Fr>(sel ^ 0x33);
        let xi = crate::replay::challenges(crate::replay::Schedule::Marlin, &[true], &mut sess.sponge())[0].0;
        // numerator xi (1 + X^s)(p - v')
        let mut q = p.coeffs().to_vec();
        if q.is_empty() {
            q.push(Fr::zero());
        }
        q[0] -= vfalse;
        let mut num = vec![Fr::zero(); q.len() + s];
        for (j, c) in q.iter().enumerate() {
            num[j] += xi * c;
            num[j + s] += xi * c;
        }
        // synthetic division by (X - z)
        let mut w = vec![Fr::zero(); num.len() - 1];
        let mut carry = Fr::zero();
        for j in (0..num.len()).rev() {
            let cur = num[j] + carry;
            if j == 0 {
                if !cur.is_zero() {
                    return None; // not divisible: the assumption z^s = -1 failed
                }
            } else {
                w[j - 1] = cur;
                carry = cur * z;
            }
        }
        let pp = &sess.keys.pp;
        if w.len() > pp.powers_of_g.len() {
            return None;
        }
        let wg: G1 = w.iter().zip(pp.powers_of_g.iter()).fold(G1::zero(), |acc, (c, g)| acc + *g * c);
        Some(Forged {
            proof: kzg10::Proof { w: wg.into_affine(), random_v: None },
            claimed: vec![vfalse],
            point: Some(z),
            desc: format!("witness of xi(1 + X^{s})(p - v')/(X - z) at a point with z^{s} = -1 (degree bound {b}, max degree {max}), assuming the shifted part is combined with the same challenge"),
            guard_log2: None,
        })
    }
    fn mutate(
        sess: &Session<Self>,
        _order: &[usize],
        _point: &Fr,
        _values: &[Fr],
        proof: &Proof<Self>,
        ops: &[OpRaw],
    ) -> Mutated<Self> {
        let (p, desc) = mutate_kzg_proof(proof, sess.keys.vk.vk.g, ops);
        Mutated {
            proof: p,
            values: None,
            desc,
            guard_log2: None,
            focus: None,
        }
    }
}

impl Attack for Sonic {
    fn mutate(
        sess: &Session<Self>,
        _order: &[usize],
        _point: &Fr,
        _values: &[Fr],
        proof: &Proof<Self>,
        ops: &[OpRaw],
    ) -> Mutated<Self> {
        let (p, desc) = mutate_kzg_proof(proof, sess.keys.vk.g, ops);
        Mutated {
            proof: p,
            values: None,
            desc,
            guard_log2: None,
            focus: None,
        }
    }
}

// ------------------------------------------------------------------------------------------------
// IPA
// ------------------------------------------------------------------------------------------------

fn rand_j(seed: u64) -> JAff {
    JProj::rand(&mut rng(seed)).into_affine()
}

impl Attack for Ipa {
    const HAS_FORGE: bool = true;
    /// "IPA rounds log_d + k with padded/identity generators": the library's prover run under a
    /// committer key whose generator list is the honest one followed by identity elements, on
    /// q_i = p_i + X^n * t_i, against commitment(p_i) and its state. Under the padded key q_i has the
    /// commitment of p_i, the proof has log2(n) + k rounds, and the claim is q_i(z) != p_i(z).
    fn forge(sess: &Session<Self>, order: &[usize], point: &JFr, sel: u64) -> Option<Forged<Self>> {
        use ark_poly::{DenseUVPolynomial, Polynomial};
        use ark_poly_commit::{LabeledPolynomial, PolynomialCommitment};
        let ck = &sess.keys.ck;
        let n = ck.comm_key.len();
        // A degenerate key first: if two of the committer key's generators coincide (G_i = G_j), or the
        // hiding generator s equals some G_i, then a different polynomial (with adjusted randomness) has
        // the commitment of p, and the honest prover run on it proves its value. On a key whose
        // generators are pairwise distinct neither exists and the padded-key forgery below is built.
        {
            use std::collections::HashMap;
            let mut seen: HashMap<Vec<u8>, usize> = HashMap::new();
            let mut dup = None;
            for (j, g) in ck.comm_key.iter().enumerate() {
                if let Some(i) = seen.get(&crate::util::ser(g)) {
                    dup = Some((*i, j));
                    break;
                }
                seen.insert(crate::util::ser(g), j);
            }
            let s_at = seen.get(&crate::util::ser(&ck.s)).copied();
            let i0 = order[0];
            let d = nz::<JFr>(sel ^ 0xd0b1e);
            let mut co = sess.polys[i0].polynomial().coeffs().to_vec();
            co.resize(n, JFr::zero());
            let mut st = sess.states[i0].clone();
            let how = if let Some((i, j)) = dup {
                co[i] += d;
                co[j] -= d;
                Some(format!("generators {i} and {j} of the committer key coincide: prover run on p + d (X^{i} - X^{j})"))
            } else if let (Some(i), true) = (s_at, sess.meta[i0].hiding.is_some()) {
                co[i] += d;
                st.rand -= d;
                Some(format!("the hiding generator equals generator {i}: prover run on p + d X^{i} with randomness - d"))
            } else {
                None
            };
            if let Some(how) = how {
                let mut lqs = Vec::new();
                for (pos, i) in order.iter().enumerate() {
                    let q = if pos == 0 { JUniPoly::from_coefficients_vec(co.clone()) } else { sess.polys[*i].polynomial().clone() };
                    lqs.push(LabeledPolynomial::new(sess.polys[*i].label().clone(), q, sess.meta[*i].bound, sess.meta[*i].hiding));
                }
                let cs: Vec<_> = order.iter().map(|i| &sess.comms[*i]).collect();
                let ss: Vec<_> = order.iter().enumerate().map(|(pos, i)| if pos == 0 { &st } else { &sess.states[*i] }).collect();
                let mut sp = sess.sponge();
                let mut r = rng(sel ^ 0xf9);
                let out = crate::util::guard(|| IpaPC::open(ck, lqs.iter(), cs, point, &mut sp, ss, Some(&mut r)));
                let crate::util::Out::Ok(proof) = out else { return None };
                let claimed = lqs.iter().map(|q| q.polynomial().evaluate(point)).collect();
                return Some(Forged { point: None, guard_log2: None, proof, claimed, desc: how });
            }
        }
        let k = 1 + ((sel >> 44) % 2) as usize;
        let big = n << k;
        let mut key = ck.comm_key.clone();
        key.resize(big, JAff::zero());
        let pck = ipa_pc::CommitterKey { comm_key: key, h: ck.h, s: ck.s, max_degree: ck.max_degree };
        let mut lqs = Vec::new();
        for (j, i) in order.iter().enumerate() {
            let mut co = sess.polys[*i].polynomial().coeffs().to_vec();
            co.resize(n, JFr::zero());
            let mut g = rng(sel ^ (0x51ed + j as u64));
            let extra = 1 + (g.next_u64() as usize) % (big - n);
            for _ in 0..extra {
                co.push(nz::<JFr>(g.next_u64()));
            }
            lqs.push(LabeledPolynomial::new(
                sess.polys[*i].label().clone(),
                JUniPoly::from_coefficients_vec(co),
                sess.meta[*i].bound,
                sess.meta[*i].hiding,
            ));
        }
        let cs: Vec<_> = order.iter().map(|i| &sess.comms[*i]).collect();
        let ss: Vec<_> = order.iter().map(|i| &sess.states[*i]).collect();
        let mut sp = sess.sponge();
        let mut r = rng(sel ^ 0xf9);
        let out = crate::util::guard(|| IpaPC::open(&pck, lqs.iter(), cs, point, &mut sp, ss, Some(&mut r)));
        let crate::util::Out::Ok(proof) = out else { return None };
        let claimed = lqs.iter().map(|q| q.polynomial().evaluate(point)).collect();
        Some(Forged { point: None, guard_log2: None, proof, claimed, desc: format!("prover run under a key of {n} generators padded with {} identity elements ({} rounds)", big - n, n.trailing_zeros() as usize + k) })
    }
    fn mutate(
        _sess: &Session<Self>,
        _order: &[usize],
        _point: &JFr,
        _values: &[JFr],
        proof: &Proof<Self>,
        ops: &[OpRaw],
    ) -> Mutated<Self> {
        let mut p: ipa_pc::Proof<JAff> = proof.clone();
        let mut d = Vec::new();
        for o in ops {
            let k = p.l_vec.len().max(1);
            let i = (o.arg as usize) % k;
            match o.op % 13 {
                0 if !p.l_vec.is_empty() => {
                    p.l_vec[i] = rand_j(o.seed);
                    d.push(format!("l_vec[{i}] := random"));
                }
                1 if !p.r_vec.is_empty() => {
                    let i = i % p.r_vec.len();
                    p.r_vec[i] = rand_j(o.seed);
                    d.push(format!("r_vec[{i}] := random"));
                }
                2 => {
                    p.final_comm_key = rand_j(o.seed);
                    d.push("final_comm_key := random".into());
                }
                3 => {
                    p.c += nz::<JFr>(o.seed);
                    d.push("c += delta".into());
                }
                4 => {
                    if p.hiding_comm.is_some() && o.arg % 2 == 0 {
                        p.hiding_comm = None;
                        p.rand = None;
                        d.push("hiding_comm, rand := None".into());
                    } else {
                        p.hiding_comm = Some(rand_j(o.seed));
                        if p.rand.is_none() {
                            p.rand = Some(JFr::rand(&mut rng(o.seed ^ 1)));
                        }
                        d.push("hiding_comm := Some(random)".into());
                    }
                }
                5 => {
                    if p.hiding_comm.is_some() {
                        p.rand = Some(p.rand.unwrap_or(JFr::zero()) + nz::<JFr>(o.seed));
                        d.push("rand += delta".into());
                    } else {
                        p.c = JFr::rand(&mut rng(o.seed));
                        d.push("c := random".into());
                    }
                }
                6 => {
                    p.l_vec.pop();
                    p.r_vec.pop();
                    d.push("one round removed".into());
                }
                7 => {
                    p.l_vec.push(JAff::zero());
                    p.r_vec.push(JAff::zero());
                    d.push("identity round appended".into());
                }
                8 => {
                    p.l_vec.push(rand_j(o.seed));
                    p.r_vec.push(rand_j(o.seed ^ 7));
                    d.push("random round appended".into());
                }
                9 => {
                    p.l_vec.pop();
                    d.push("l_vec shorter than r_vec".into());
                }
                10 => {
                    std::mem::swap(&mut p.l_vec, &mut p.r_vec);
                    d.push("l_vec <-> r_vec".into());
                }
                11 => {
                    p.l_vec.reverse();
                    p.r_vec.reverse();
                    d.push("rounds reversed".into());
                }
                _ => {
                    p.l_vec.clear();
                    p.r_vec.clear();
                    d.push("all rounds removed".into());
                }
            }
        }
        Mutated {
            proof: p,
            values: None,
            desc: d,
            guard_log2: None,
            focus: None,
        }
    }
}

// ------------------------------------------------------------------------------------------------
// PST13
// ------------------------------------------------------------------------------------------------

impl Attack for Pst13 {
    fn mutate(
        _sess: &Session<Self>,
        _order: &[usize],
        _point: &Vec<Fr>,
        _values: &[Fr],
        proof: &Proof<Self>,
        ops: &[OpRaw],
    ) -> Mutated<Self> {
        let mut p: marlin_pst13_pc::Proof<E> = proof.clone();
        let mut d = Vec::new();
        for o in ops {
            let n = p.w.len().max(1);
            let i = (o.arg as usize) % n;
            match o.op % 8 {
                0 if !p.w.is_empty() => {
                    p.w[i] = rand_g1(o.seed);
                    d.push(format!("w[{i}] := random"));
                }
                1 => {
                    p.w.pop();
                    d.push("last witness dropped".into());
                }
                2 => {
                    p.w.push(rand_g1(o.seed));
                    d.push("random witness appended".into());
                }
                3 => {
                    p.w.clear();
                    d.push("witness list emptied".into());
                }
                4 => {
                    p.random_v = match p.random_v {
                        Some(_) if o.arg % 2 == 0 => None,
                        Some(v) => Some(v + nz::<Fr>(o.seed)),
                        None => Some(Fr::rand(&mut rng(o.seed))),
                    };
                    d.push("random_v toggled/shifted".into());
                }
                5 if p.w.len() >= 2 => {
                    let j = (i + 1) % p.w.len();
                    p.w.swap(i, j);
                    d.push(format!("w[{i}] <-> w[{j}]"));
                }
                6 if !p.w.is_empty() => {
                    p.w[i] = G1A::zero();
                    d.push(format!("w[{i}] := identity"));
                }
                _ => {
                    p.w.push(G1A::zero());
                    d.push("identity witness appended".into());
                }
            }
        }
        Mutated {
            proof: p,
            values: None,
            desc: d,
            guard_log2: None,
            focus: None,
        }
    }
}

// ------------------------------------------------------------------------------------------------
// Hyrax
// ------------------------------------------------------------------------------------------------

impl Attack for Hyrax {
    const HAS_FORGE: bool = true;
    /// Fiat-Shamir omission forgeries: the forger computes the challenge c from the transcript *without* one
    /// of the auxiliary commitments and then solves the verification equations for that commitment.
    /// Variant A (com_d omitted) needs public data only; variant B (com_b omitted) runs the honest first
    /// equation with the prover's knowledge and solves the second one. A verifier whose challenge binds
    /// every auxiliary commitment rejects both.
    fn forge(sess: &Session<Self>, order: &[usize], point: &Vec<Fr>, sel: u64) -> Option<Forged<Self>> {
        use crate::refv::eq_tensor;
        use crate::util::ser_unc;
        use ark_crypto_primitives::sponge::CryptographicSponge;
        use ark_ff::Field;
        let vk = &sess.keys.vk;
        let n = point.len();
        if n % 2 == 1 {
            return None;
        }
        let dim = 1usize << (n / 2);
        if vk.com_key.len() != dim {
            return None;
        }
        let rev: Vec<Fr> = point.iter().rev().cloned().collect();
        let l = eq_tensor(&rev[n / 2..]);
        let r = eq_tensor(&rev[..n / 2]);
        let variant_b = (sel >> 41) % 2 == 1;
        let g0 = vk.com_key[0];
        let com = |z: &[Fr], blind: Fr| -> G1 { z.iter().zip(&vk.com_key).fold(vk.h * blind, |acc, (zi, g)| acc + *g * zi) };
        let mut sp = sess.sponge();
        let mut g = rng(sel ^ 0x4879);
        let mut proofs = Vec::new();
        let mut claimed = Vec::new();
        for i in order {
            let rows = &sess.comms[*i].commitment().row_coms;
            if rows.len() != dim {
                return None;
            }
            let truth = sess.true_value(*i, point);
            let vfalse = truth + nz::<Fr>(g.next_u64());
            let (r_eval, r_b, z_d, z_b_rand) = (Fr::rand(&mut g), Fr::rand(&mut g), Fr::rand(&mut g), Fr::rand(&mut g));
            let com_eval = (g0 * vfalse + vk.h * r_eval).into_affine();
            let tp: G1 = l.iter().zip(rows).fold(G1::zero(), |acc, (li, row)| acc + *row * li);
            sp.absorb(&ser_unc(vk));
            sp.absorb(&ser_unc(rows));
            sp.absorb(point);
            sp.absorb(&ser_unc(&com_eval));
            let pr = if !variant_b {
                // A: com_d is not in the forger's transcript
                let b = Fr::rand(&mut g);
                let com_b = (g0 * b + vk.h * r_b).into_affine();
                sp.absorb(&ser_unc(&com_b));
                let c: Fr = sp.squeeze_field_elements(1)[0];
                let mut z: Vec<Fr> = (0..dim).map(|_| Fr::rand(&mut g)).collect();
                let k = r.iter().position(|x| !x.is_zero())?;
                let rest: Fr = r.iter().zip(&z).enumerate().filter(|(j, _)| *j != k).fold(Fr::zero(), |a, (_, (x, y))| a + *x * y);
                z[k] = (b + c * vfalse - rest) * r[k].inverse()?;
                let z_b = c * r_eval + r_b;
                let com_d = (com(&z, z_d) - tp * c).into_affine();
                HyraxProof { com_eval, com_d, com_b, z, z_d, z_b, r_eval }
            } else {
                // B: com_b is not in the forger's transcript; the first equation is run honestly
                let st: crate::oracle::MHyraxState = crate::lincode::mirror(&sess.states[*i]).ok()?;
                let evals = &sess.polys[*i].polynomial().evaluations;
                if st.randomness.len() != dim || evals.len() != dim * dim {
                    return None;
                }
                let lm: Vec<Fr> = (0..dim).map(|j| (0..dim).fold(Fr::zero(), |a, i2| a + l[i2] * evals[j * dim + i2])).collect();
                let lr: Fr = l.iter().zip(&st.randomness).fold(Fr::zero(), |a, (x, y)| a + *x * y);
                let d: Vec<Fr> = (0..dim).map(|_| Fr::rand(&mut g)).collect();
                let r_d = Fr::rand(&mut g);
                let com_d = com(&d, r_d).into_affine();
                sp.absorb(&ser_unc(&com_d));
                let c: Fr = sp.squeeze_field_elements(1)[0];
                let z: Vec<Fr> = lm.iter().zip(&d).map(|(x, y)| c * x + y).collect();
                let z_d2 = c * lr + r_d;
                let rz: Fr = r.iter().zip(&z).fold(Fr::zero(), |a, (x, y)| a + *x * y);
                let com_b = (g0 * rz + vk.h * z_b_rand - com_eval * c).into_affine();
                HyraxProof { com_eval, com_d, com_b, z, z_d: z_d2, z_b: z_b_rand, r_eval }
            };
            proofs.push(pr);
            claimed.push(vfalse);
        }
        Some(Forged {
            point: None,
            proof: proofs,
            claimed,
            desc: format!("Fiat-Shamir omission forgery: challenge computed without {}, which is then solved for from the verification equations", if variant_b { "com_b (first equation run honestly with the prover's state)" } else { "com_d (public data only)" }),
            guard_log2: None,
        })
    }
    fn mutate(
        sess: &Session<Self>,
        _order: &[usize],
        _point: &Vec<Fr>,
        values: &[Fr],
        proof: &Proof<Self>,
        ops: &[OpRaw],
    ) -> Mutated<Self> {
        let mut ps: Vec<HyraxProof<G1A>> = proof.clone();
        let mut d = Vec::new();
        let mut vals: Option<Vec<Fr>> = None;
        let mut focus = None;
        for o in ops {
            if ps.is_empty() {
                break;
            }
            let k = (o.arg as usize) % ps.len();
            focus = Some(if o.op % 14 == 9 { ps.len() - 1 } else { k });
            let zi = ((o.arg >> 4) as usize) % ps[k].z.len().max(1);
            match o.op % 14 {
                0 => {
                    ps[k].com_eval = rand_g1(o.seed);
                    d.push(format!("proof[{k}].com_eval := random"));
                }
                1 => {
                    ps[k].com_d = rand_g1(o.seed);
                    d.push(format!("proof[{k}].com_d := random"));
                }
                2 => {
                    ps[k].com_b = rand_g1(o.seed);
                    d.push(format!("proof[{k}].com_b := random"));
                }
                3 if !ps[k].z.is_empty() => {
                    ps[k].z[zi] += nz::<Fr>(o.seed);
                    d.push(format!("proof[{k}].z[{zi}] += delta"));
                }
                4 => {
                    let l = ps[k].z.len();
                    let mut g = rng(o.seed);
                    for _ in 0..l.max(1) {
                        ps[k].z.push(if o.arg % 2 == 0 { Fr::zero() } else { Fr::rand(&mut g) });
                    }
                    d.push(format!("proof[{k}].z stretched to twice its length"));
                }
                5 => {
                    ps[k].z.pop();
                    d.push(format!("proof[{k}].z shortened"));
                }
                6 => {
                    ps[k].z_d += nz::<Fr>(o.seed);
                    d.push(format!("proof[{k}].z_d += delta"));
                }
                7 => {
                    ps[k].z_b += nz::<Fr>(o.seed);
                    d.push(format!("proof[{k}].z_b += delta"));
                }
                8 => {
                    ps[k].r_eval += nz::<Fr>(o.seed);
                    d.push(format!("proof[{k}].r_eval += delta"));
                }
                9 => {
                    ps.pop();
                    d.push("last per-polynomial proof dropped".into());
                }
                10 => {
                    let c = ps[k].clone();
                    ps.push(c);
                    d.push(format!("copy of proof[{k}] appended"));
                }
                11 if ps.len() >= 2 => {
                    let j = (k + 1) % ps.len();
                    ps.swap(k, j);
                    d.push(format!("proof[{k}] <-> proof[{j}]"));
                }
                12 => {
                    // re-open the evaluation commitment to a false value, consistently with r_eval
                    let delta = nz::<Fr>(o.seed);
                    let mut v = vals.clone().unwrap_or_else(|| values.to_vec());
                    if k < v.len() {
                        v[k] += delta;
                        let g0 = sess.keys.vk.com_key[0];
                        ps[k].com_eval = (g0 * v[k] + sess.keys.vk.h * ps[k].r_eval).into_affine();
                        vals = Some(v);
                        d.push(format!("proof[{k}].com_eval re-opened to value+delta"));
                    }
                }
                _ => {
                    ps.clear();
                    d.push("proof vector emptied".into());
                }
            }
        }
        Mutated {
            proof: ps,
            values: vals,
            desc: d,
            guard_log2: None,
            focus,
        }
    }
}

// ------------------------------------------------------------------------------------------------
// Ligero / Brakedown (through the mirror structs)
// ------------------------------------------------------------------------------------------------

fn interleave(v: &[Fr]) -> Vec<Fr> {
    let mut out = Vec::with_capacity(v.len() * 2);
    for x in v {
        out.push(*x);
        out.push(Fr::zero());
    }
    out
}

pub fn mutate_lin<S: Lin>(
    sess: &Session<S>,
    order: &[usize],
    point: &S::Pt,
    values: &[Fr],
    proof: &Proof<S>,
    ops: &[OpRaw],
) -> Mutated<S> {
    let honest: Vec<MProof> = match lincode::proofs_mirror::<S>(proof) {
        Ok(p) => p,
        Err(e) => {
            return Mutated {
                proof: proof.clone(),
                values: None,
                desc: vec![format!("mirror failed: {e}")],
                guard_log2: None,
                focus: None,
            }
        }
    };
    let mut ps = honest.clone();
    let mut d = Vec::new();
    let mut v_changed = vec![false; ps.len()];
    let mut wf_changed = vec![false; ps.len()];
    let mut cols_touched = vec![false; ps.len()];
    let mut focus = None;
    // composite ("smart") attacks are expanded into their primitive steps
    let mut prog: Vec<OpRaw> = Vec::new();
    let mut reprove = false;
    for o in ops {
        let prim = |op: u8, arg: u16| OpRaw { op, arg, seed: o.seed };
        let k = o.arg & 0xf;
        match o.op % 32 {
            25 => {
                prog.push(prim(0, o.arg));
                reprove = true;
            }
            26 => {
                prog.push(prim(3, o.arg));
                reprove = true;
            }
            27 => {
                prog.push(prim(4, o.arg));
                reprove = true;
            }
            28 => {
                prog.push(prim(7, o.arg));
                reprove = true;
            }
            29 => {
                prog.push(prim(5, o.arg));
                reprove = true;
            }
            30 => {
                prog.push(prim(1, o.arg));
                reprove = true;
            }
            31 => {
                prog.push(prim(2, o.arg));
                reprove = true;
            }
            18 | 19 => {
                // a vector implying a false value, with no column opened at all
                prog.push(prim(3, o.arg));
                prog.push(prim(13, k));
            }
            20 => {
                prog.push(prim(4, o.arg));
                prog.push(prim(13, k));
            }
            21 => {
                prog.push(prim(5, o.arg));
                prog.push(prim(13, k));
            }
            22 => prog.push(prim(13, k)),
            23 => prog.push(prim(13, k | (1 << 4))),
            24 => {
                // stretched vector and nothing opened
                prog.push(prim(0, o.arg));
                prog.push(prim(13, k));
            }
            x => prog.push(prim(x, o.arg)),
        }
    }
    for o in &prog {
        if ps.is_empty() {
            break;
        }
        let k = (o.arg as usize & 0xf) % ps.len();
        let sub = (o.arg >> 4) as usize;
        focus = Some(if o.op % 18 == 17 && o.seed % 2 == 0 { ps.len() - 1 } else { k });
        let pr = &mut ps[k];
        let nv = pr.opening.v.len().max(1);
        let t = pr.opening.columns.len();
        let tp = pr.opening.paths.len();
        match o.op % 18 {
            0 => {
                pr.opening.v = interleave(&pr.opening.v);
                v_changed[k] = true;
                d.push(format!("proof[{k}].v := v(X^2) (interleaved zeros, twice the length)"));
            }
            1 => {
                let l = pr.opening.v.len();
                pr.opening.v.extend(std::iter::repeat(Fr::zero()).take(l));
                v_changed[k] = true;
                d.push(format!("proof[{k}].v padded with zeros to twice the length"));
            }
            2 => {
                pr.opening.v.pop();
                v_changed[k] = true;
                d.push(format!("proof[{k}].v shortened"));
            }
            3 => {
                let i = sub % nv;
                if !pr.opening.v.is_empty() {
                    pr.opening.v[i] += nz::<Fr>(o.seed);
                    v_changed[k] = true;
                    d.push(format!("proof[{k}].v[{i}] += delta"));
                }
            }
            4 => {
                let mut g = rng(o.seed);
                for x in pr.opening.v.iter_mut() {
                    *x = Fr::rand(&mut g);
                }
                v_changed[k] = true;
                d.push(format!("proof[{k}].v := random"));
            }
            5 => {
                pr.well_formedness = None;
                wf_changed[k] = true;
                d.push(format!("proof[{k}].well_formedness := None"));
            }
            6 => {
                if let Some(w) = &pr.well_formedness {
                    pr.well_formedness = Some(interleave(w));
                    wf_changed[k] = true;
                    d.push(format!("proof[{k}].well_formedness stretched"));
                }
            }
            7 => {
                if let Some(w) = &mut pr.well_formedness {
                    if !w.is_empty() {
                        let i = sub % w.len();
                        w[i] += nz::<Fr>(o.seed);
                        wf_changed[k] = true;
                        d.push(format!("proof[{k}].well_formedness[{i}] += delta"));
                    }
                }
            }
            8 if t > 0 => {
                let c0 = pr.opening.columns[0].clone();
                for c in pr.opening.columns.iter_mut() {
                    *c = c0.clone();
                }
                cols_touched[k] = true;
                d.push(format!("proof[{k}]: every column := column 0"));
            }
            9 if t > 0 && tp > 0 => {
                let c0 = pr.opening.columns[0].clone();
                let p0 = pr.opening.paths[0].clone();
                for c in pr.opening.columns.iter_mut() {
                    *c = c0.clone();
                }
                for p in pr.opening.paths.iter_mut() {
                    *p = p0.clone();
                }
                cols_touched[k] = true;
                d.push(format!("proof[{k}]: every (column, path) := (column 0, path 0)"));
            }
            10 if t > 1 => {
                pr.opening.columns.rotate_left(1);
                cols_touched[k] = true;
                d.push(format!("proof[{k}]: columns rotated, paths kept"));
            }
            11 if t > 1 && tp > 1 => {
                pr.opening.columns.rotate_left(1);
                pr.opening.paths.rotate_left(1);
                cols_touched[k] = true;
                d.push(format!("proof[{k}]: columns and paths rotated"));
            }
            12 if tp > 0 => {
                let j = sub % tp;
                pr.opening.paths[j].leaf_index ^= 1;
                cols_touched[k] = true;
                d.push(format!("proof[{k}].paths[{j}].leaf_index flipped"));
            }
            13 => {
                // sub 0 => nothing kept, 1 => one column, 2 => all but one, otherwise a random prefix
                let keep = if t == 0 {
                    0
                } else {
                    match sub {
                        0 => 0,
                        1 => 1.min(t - 1),
                        2 => t - 1,
                        _ => sub % t,
                    }
                };
                pr.opening.columns.truncate(keep);
                pr.opening.paths.truncate(keep);
                cols_touched[k] = true;
                d.push(format!("proof[{k}]: columns and paths truncated to {keep}"));
            }
            14 => {
                let keep = if t == 0 { 0 } else { sub % t };
                if o.seed % 2 == 0 {
                    pr.opening.columns.truncate(keep);
                    d.push(format!("proof[{k}]: columns truncated to {keep}"));
                } else {
                    pr.opening.paths.truncate(keep);
                    d.push(format!("proof[{k}]: paths truncated to {keep}"));
                }
                cols_touched[k] = true;
            }
            15 if t > 0 => {
                let j = sub % t;
                if !pr.opening.columns[j].is_empty() {
                    let r = (o.seed as usize) % pr.opening.columns[j].len();
                    pr.opening.columns[j][r] += nz::<Fr>(o.seed);
                    cols_touched[k] = true;
                    d.push(format!("proof[{k}].columns[{j}][{r}] += delta"));
                }
            }
            16 if tp > 0 => {
                let j = sub % tp;
                let ap = &mut pr.opening.paths[j].auth_path;
                if o.seed % 2 == 0 {
                    ap.pop();
                    d.push(format!("proof[{k}].paths[{j}]: one auth-path level removed"));
                } else if !ap.is_empty() {
                    let l = (o.seed as usize >> 1) % ap.len();
                    ap[l][0] ^= 1;
                    d.push(format!("proof[{k}].paths[{j}].auth_path[{l}] bit flipped"));
                }
                cols_touched[k] = true;
            }
            _ => {
                if o.seed % 2 == 0 {
                    ps.pop();
                    d.push("last per-polynomial proof dropped".into());
                } else {
                    let c = ps[k].clone();
                    ps.push(c);
                    v_changed.push(false);
                    wf_changed.push(false);
                    cols_touched.push(false);
                    d.push(format!("copy of proof[{k}] appended"));
                }
            }
        }
    }
    // adaptive adversary: recompute columns and paths for the transcript the changed vectors produce
    if reprove && !cols_touched.iter().any(|x| *x) && ps.len() == order.len() {
        let polys: Vec<&S::P> = order.iter().map(|i| sess.polys[*i].polynomial()).collect();
        let v_over: Vec<Option<Vec<Fr>>> = (0..ps.len())
            .map(|k| if v_changed[k] { Some(ps[k].opening.v.clone()) } else { None })
            .collect();
        let wf_over: Vec<Option<Option<Vec<Fr>>>> = (0..ps.len())
            .map(|k| if wf_changed[k] { Some(ps[k].well_formedness.clone()) } else { None })
            .collect();
        match lincode::emulate_prover::<S>(&sess.keys.ck, &polys, point, &mut sess.sponge(), &v_over, &wf_over) {
            Ok(re) => {
                ps = re;
                d.push("columns and paths recomputed for the new transcript (adaptive prover)".into());
            }
            Err(e) => d.push(format!("adaptive prover failed: {e}")),
        }
    }
    // claimed values follow the (possibly changed) opened vectors: <v', a>
    let mut vals = values.to_vec();
    let mut guard = 0.0f64;
    let mut guard_applies = false;
    for (k, i) in order.iter().enumerate() {
        if k >= ps.len() || k >= honest.len() {
            break;
        }
        let Ok(mc) = lincode::comm_mirror::<S>(&sess.comms[*i]) else { continue };
        let (n_rows, n_cols, n_ext) = (mc.metadata.n_rows, mc.metadata.n_cols, mc.metadata.n_ext_cols);
        let (a, _b) = lincode::tensor::<S>(point, n_cols, n_rows);
        if v_changed[k] {
            vals[k] = lincode::inner(&ps[k].opening.v, &a);
        }
        if cols_touched[k] {
            continue;
        }
        let t = lincode::expected_t::<Fr>(S::sec_param(&sess.keys.ck), S::dist(&sess.keys.ck), n_ext);
        let Some(t) = t else { continue };
        let ck = &sess.keys.ck;
        if v_changed[k] && ps[k].opening.v.len() == n_cols {
            if let (Some(w0), Some(w1)) = (
                lincode::encode::<S>(ck, &honest[k].opening.v).ok(),
                lincode::encode::<S>(ck, &ps[k].opening.v).ok(),
            ) {
                let good = w0.iter().zip(&w1).filter(|(x, y)| x == y).count();
                guard += lincode::log2_pass_prob(good, n_ext, t);
                guard_applies = true;
            }
        }
        if wf_changed[k] {
            if let (Some(h), Some(m)) = (&honest[k].well_formedness, &ps[k].well_formedness) {
                if m.len() == n_cols {
                    if let (Some(w0), Some(w1)) =
                        (lincode::encode::<S>(ck, h).ok(), lincode::encode::<S>(ck, m).ok())
                    {
                        let good = w0.iter().zip(&w1).filter(|(x, y)| x == y).count();
                        guard += lincode::log2_pass_prob(good, n_ext, t);
                        guard_applies = true;
                    }
                }
            }
        }
    }
    let proof2 = match lincode::proofs_unmirror::<S>(&ps) {
        Ok(p) => p,
        Err(e) => {
            d.push(format!("re-encoding failed: {e}"));
            proof.clone()
        }
    };
    Mutated {
        proof: proof2,
        values: if vals != values { Some(vals) } else { None },
        desc: d,
        guard_log2: if guard_applies { Some(guard) } else { None },
        focus,
    }
}

macro_rules! lin_attack {
    ($s:ty) => {
        impl Attack for $s {
            const HAS_FORGE: bool = true;
            fn forge(sess: &Session<Self>, order: &[usize], point: &Self::Pt, sel: u64) -> Option<Forged<Self>> {
                if (sel >> 43) % 3 == 0 {
                    lin_fs_omission_forge::<Self>(sess, order, point, sel).or_else(|| lin_window_forge::<Self>(sess, order, point, sel))
                } else {
                    lin_window_forge::<Self>(sess, order, point, sel)
                }
            }
            fn mutate(
                sess: &Session<Self>,
                order: &[usize],
                point: &Self::Pt,
                values: &[Fr],
                proof: &Proof<Self>,
                ops: &[OpRaw],
            ) -> Mutated<Self> {
                mutate_lin::<Self>(sess, order, point, values, proof, ops)
            }
        }
    };
}
lin_attack!(ULigero);
lin_attack!(MLigero);
lin_attack!(Brakedown);

#[allow(dead_code)]
fn _u(_: &mut dyn RngCore) -> Fr {
    Fr::one()
}
