//! C01 — completeness: honest proofs of true evaluation claims are always accepted.

use super::common::*;
use crate::engine::{CaseCtx, Failure, PropUnit, PropertySpec, Unit};
use crate::model::{fraw, fraw_point, poly_raw, PolyRaw, Scn};
use crate::schemes::*;
use crate::session::Session;
use crate::types::*;
use crate::util::{guard, guard_plain, pick, rng, FRaw, Out};
use ark_ff::{Field, One, UniformRand, Zero};
use ark_poly::{DenseUVPolynomial, Polynomial};
use ark_poly_commit::kzg10;
use ark_poly_commit::streaming_kzg::{CommitterKey, CommitterKeyStream, VerifierKey};
use ark_std::iterable::Reverse;
use proptest::prelude::*;
use serde::{Deserialize, Serialize};
use serde_json::json;

const P: &str = "C01";

pub fn check_trait<S: Scheme>(scn: &Scn, ctx: &mut CaseCtx) -> Result<(), Failure> {
    let tier = current_tier();
    // one case in twelve runs under the scheme's large keys (256 / 512 key elements and a little beyond),
    // where the scheme has any: size thresholds are invisible at the ordinary sizes
    let built = if scn.seeds[2] % 12 == 5 {
        S::keys_large(&scn.key, tier, scn.seeds[2] / 12).and_then(|k| Session::<S>::build_with_keys(scn, k))
    } else {
        Session::<S>::build(scn, tier)
    };
    let sess = match built {
        Ok(s) => s,
        Err(e) => {
            let stage = e.split(':').next().unwrap_or("build").to_string();
            let class = if e.contains("Abort(") { "abort" } else { "err" };
            return ctx.fail(
                sig(P, S::NAME, &stage, class),
                format!("in-domain request not served: {e}"),
            );
        }
    };
    let nt = classify(&sess, ctx);
    ctx.nontrivial_if(nt);
    ctx.label_if(sess.keys.info.num_vars == 1 && sess.keys.info.max_degree >= 255, "large_key");
    ctx.derived = Some(sess.describe());

    // single-point open/check on every group (positional API, prover's order on both sides)
    for g in &sess.groups {
        let order = sess.group_order(g);
        let values: Vec<S::F> = order.iter().map(|i| sess.true_value(*i, &g.point)).collect();
        let mut sp = sess.sponge();
        let proof = match sess.open_idx(&order, &g.point, &mut sp, sess.seeds[1]) {
            Out::Ok(p) => p,
            o => {
                return ctx.fail(
                    sig(P, S::NAME, "open", o.kind()),
                    format!("open on group {} -> {}", g.label, o.describe_nodebug()),
                )
            }
        };
        let mut sv = sess.sponge();
        let r = sess.check_idx(&order, &g.point, values, &proof, &mut sv, sess.seeds[2]);
        ctx.asserts += 1;
        stage_fail(ctx, P, S::NAME, "check", &r)?;
    }

    // batched opening of the whole query set; verifier lists commitments in its own order
    let qs = sess.query_set();
    let evals = sess.evaluations();
    let mut sp = sess.sponge();
    let bp = match sess.batch_open(&qs, &mut sp, sess.seeds[1]) {
        Out::Ok(p) => p,
        o => {
            return ctx.fail(
                sig(P, S::NAME, "batch_open", o.kind()),
                format!("batch_open -> {}", o.describe_nodebug()),
            )
        }
    };
    let mut sv = sess.sponge();
    let r = sess.batch_check(sess.verifier_comms(), &qs, &evals, &bp, &mut sv, sess.seeds[2]);
    ctx.asserts += 1;
    stage_fail(ctx, P, S::NAME, "batch_check", &r)?;
    Ok(())
}

// ------------------------------------------------------------------------------------------------
// KZG10 (inherent API)
// ------------------------------------------------------------------------------------------------

#[derive(Clone, Debug, Serialize, Deserialize)]
pub struct KzgCase {
    pub max: u16,
    pub supported: u16,
    pub hiding_key: u8,
    pub seed: u8,
    /// 1..=4 polynomials, each with its own point (KZG10::batch_check pairs them positionally)
    pub items: Vec<(PolyRaw, FRaw)>,
    pub seeds: [u64; 2],
}

pub fn kzg_case() -> impl Strategy<Value = KzgCase> {
    (
        any::<u16>(),
        any::<u16>(),
        any::<u8>(),
        0u8..4,
        proptest::collection::vec((poly_raw(), fraw_point()), 1..=4),
        any::<[u64; 2]>(),
    )
        .prop_map(|(max, supported, hiding_key, seed, items, seeds)| KzgCase {
            max,
            supported,
            hiding_key,
            seed,
            items,
            seeds,
        })
}

pub struct KzgKeys {
    pub pp: std::sync::Arc<kzg10::UniversalParams<E>>,
    pub max: usize,
    pub supported: usize,
    pub hiding: usize,
    pub powers_g: Vec<G1A>,
    pub powers_gamma: Vec<G1A>,
    pub vk: kzg10::VerifierKey<E>,
}

impl KzgKeys {
    pub fn powers(&self) -> kzg10::Powers<'_, E> {
        kzg10::Powers {
            powers_of_g: std::borrow::Cow::Borrowed(&self.powers_g),
            powers_of_gamma_g: std::borrow::Cow::Borrowed(&self.powers_gamma),
        }
    }
}

/// KZG10 has no public trim; the harness slices the public fields the way the crate's own test helper does.
pub fn kzg_keys(max_raw: u16, sup_raw: u16, hid_raw: u8, seed: u8) -> Result<KzgKeys, String> {
    let max = UNI_DEGS[pick(max_raw, UNI_DEGS.len())];
    let supported = 1 + pick(sup_raw, max);
    let hiding = pick((hid_raw as u16) << 8, max.min(6) + 1);
    let pp = memo(format!("kzg10:{}:{}", max, seed), || {
        guard(|| Kzg::setup(max, false, &mut rng(0xcafe + seed as u64))).need("setup")
    })?;
    let powers_g = pp.powers_of_g[..=supported].to_vec();
    let powers_gamma = (0..=hiding + 1).map(|i| pp.powers_of_gamma_g[&i]).collect();
    let vk = kzg10::VerifierKey {
        g: pp.powers_of_g[0],
        gamma_g: pp.powers_of_gamma_g[&0],
        h: pp.h,
        beta_h: pp.beta_h,
        prepared_h: pp.prepared_h.clone(),
        prepared_beta_h: pp.prepared_beta_h.clone(),
    };
    Ok(KzgKeys {
        pp,
        max,
        supported,
        hiding,
        powers_g,
        powers_gamma,
        vk,
    })
}

pub fn kzg_hiding(keys: &KzgKeys, raw: u8) -> Option<usize> {
    if raw == 0 || keys.hiding == 0 {
        None
    } else {
        Some(1 + pick(((raw - 1) as u16) << 8, keys.hiding))
    }
}

fn check_kzg(c: &KzgCase, ctx: &mut CaseCtx) -> Result<(), Failure> {
    let keys = match kzg_keys(c.max, c.supported, c.hiding_key, c.seed) {
        Ok(k) => k,
        Err(e) => return ctx.fail(sig(P, "kzg10", "setup", "err"), e),
    };
    let powers = keys.powers();
    let mut crng = rng(c.seeds[0]);
    let mut comms = Vec::new();
    let mut points = Vec::new();
    let mut values = Vec::new();
    let mut proofs = Vec::new();
    let mut desc = Vec::new();
    for (pr, zr) in &c.items {
        let (coeffs, shape) = uni_coeffs::<Fr>(keys.supported, pr);
        let p = UniPoly::from_coefficients_vec(coeffs);
        let h = kzg_hiding(&keys, pr.hiding);
        let z: Fr = zr.to_f();
        ctx.label(shape);
        ctx.label_if(h.is_some(), "has_hiding");
        ctx.nontrivial_if(h.is_some() || shape == "zero" || shape == "leading_zero");
        desc.push(json!({"shape": shape, "deg": p.degree(), "hiding": h}));
        let (comm, rand) = match guard(|| Kzg::commit(&powers, &p, h, Some(&mut crng))) {
            Out::Ok(x) => x,
            o => {
                return ctx.fail(
                    sig(P, "kzg10", "commit", o.kind()),
                    format!("commit -> {}", o.describe_nodebug()),
                )
            }
        };
        let proof = match guard(|| Kzg::open(&powers, &p, z, &rand)) {
            Out::Ok(x) => x,
            o => {
                return ctx.fail(
                    sig(P, "kzg10", "open", o.kind()),
                    format!("open -> {}", o.describe_nodebug()),
                )
            }
        };
        let v = p.evaluate(&z);
        let r = guard(|| Kzg::check(&keys.vk, &comm, z, v, &proof));
        ctx.asserts += 1;
        stage_fail(ctx, P, "kzg10", "check", &r)?;
        comms.push(comm);
        points.push(z);
        values.push(v);
        proofs.push(proof);
    }
    ctx.nontrivial_if(c.items.len() >= 2);
    ctx.label_if(c.items.len() >= 2, "batch_of_several");
    ctx.derived = Some(json!({"scheme": "kzg10", "max_degree": keys.max, "supported": keys.supported,
        "supported_hiding": keys.hiding, "items": desc}));
    let r = guard(|| {
        Kzg::batch_check(
            &keys.vk,
            &comms,
            &points,
            &values,
            &proofs,
            &mut rng(c.seeds[1]),
        )
    });
    ctx.asserts += 1;
    stage_fail(ctx, P, "kzg10", "batch_check", &r)
}

// ------------------------------------------------------------------------------------------------
// multilinear PST (inherent API)
// ------------------------------------------------------------------------------------------------

#[derive(Clone, Debug, Serialize, Deserialize)]
pub struct MlCase {
    pub nv_max: u16,
    pub nv: u16,
    pub seed: u8,
    pub poly: PolyRaw,
    pub sparse_repr: bool,
    pub point: FRaw,
}

pub fn ml_case() -> impl Strategy<Value = MlCase> {
    (
        any::<u16>(),
        any::<u16>(),
        0u8..3,
        poly_raw(),
        any::<bool>(),
        fraw_point(),
    )
        .prop_map(|(nv_max, nv, seed, poly, sparse_repr, point)| MlCase {
            nv_max,
            nv,
            seed,
            poly,
            sparse_repr,
            point,
        })
}

pub type MlUp = ark_poly_commit::multilinear_pc::data_structures::UniversalParams<E>;
pub type MlCk = ark_poly_commit::multilinear_pc::data_structures::CommitterKey<E>;
pub type MlVk = ark_poly_commit::multilinear_pc::data_structures::VerifierKey<E>;

pub fn ml_keys(nv_max_raw: u16, nv_raw: u16, seed: u8) -> Result<(std::sync::Arc<MlUp>, MlCk, MlVk, usize, usize), String> {
    let cap = if current_tier().is_quick() { 8 } else { 10 };
    let nv_max = 1 + pick(nv_max_raw, cap);
    let nv = 1 + pick(nv_raw, nv_max);
    let pp = memo(format!("mlpst:{}:{}", nv_max, seed), || {
        guard_plain(|| MlPst::setup(nv_max, &mut rng(0x31 + seed as u64))).need("setup")
    })?;
    let (ck, vk) = guard_plain(|| MlPst::trim(&pp, nv)).need("trim")?;
    Ok((pp, ck, vk, nv_max, nv))
}

pub fn to_sparse_mle(m: &MLE) -> ark_poly::SparseMultilinearExtension<Fr> {
    let ev: Vec<(usize, Fr)> = m
        .evaluations
        .iter()
        .enumerate()
        .filter(|(_, v)| !v.is_zero())
        .map(|(i, v)| (i, *v))
        .collect();
    ark_poly::SparseMultilinearExtension::from_evaluations(m.num_vars, &ev)
}

fn check_ml(c: &MlCase, ctx: &mut CaseCtx) -> Result<(), Failure> {
    let (_pp, ck, vk, nv_max, nv) = match ml_keys(c.nv_max, c.nv, c.seed) {
        Ok(k) => k,
        Err(e) => return ctx.fail(sig(P, "mlpst", "setup", "err"), e),
    };
    let built = mle_from_raw(nv, &c.poly);
    let point: Vec<Fr> = c.point.to_vec(nv);
    ctx.label(built.shape);
    ctx.label_if(nv < nv_max, "trimmed_key");
    ctx.label_if(c.sparse_repr, "sparse_representation");
    ctx.nontrivial_if(nv < nv_max || built.shape != "random" || c.sparse_repr);
    ctx.derived = Some(json!({"scheme":"mlpst","nv_max":nv_max,"nv":nv,"shape":built.shape,"sparse_repr":c.sparse_repr}));
    let value = built.poly.evaluate(&point);
    let (comm, proof) = if c.sparse_repr {
        let sp = to_sparse_mle(&built.poly);
        let comm = guard_plain(|| MlPst::commit(&ck, &sp));
        let proof = guard_plain(|| MlPst::open(&ck, &sp, &point));
        (comm, proof)
    } else {
        (
            guard_plain(|| MlPst::commit(&ck, &built.poly)),
            guard_plain(|| MlPst::open(&ck, &built.poly, &point)),
        )
    };
    let comm = match comm {
        Out::Ok(c) => c,
        o => return ctx.fail(sig(P, "mlpst", "commit", o.kind()), o.describe_nodebug()),
    };
    let proof = match proof {
        Out::Ok(c) => c,
        o => return ctx.fail(sig(P, "mlpst", "open", o.kind()), o.describe_nodebug()),
    };
    let r = guard_plain(|| MlPst::check(&vk, &comm, &point, value, &proof));
    ctx.asserts += 1;
    stage_fail(ctx, P, "mlpst", "check", &r)
}

// ------------------------------------------------------------------------------------------------
// streaming KZG (time and space provers)
// ------------------------------------------------------------------------------------------------

#[derive(Clone, Debug, Serialize, Deserialize)]
pub struct SkCase {
    /// 1..=8 polynomials: (number of coefficients choice, shape seed)
    pub polys: Vec<(u16, u64, u8)>,
    pub extra_key: u8,
    pub points: Vec<FRaw>,
    pub eta: FRaw,
    pub buf: u8,
    pub seed: u8,
}

pub const SK_BUFS: [usize; 7] = [1, 2, 3, 7, 64, 1 << 10, 1 << 20];

pub fn sk_case() -> impl Strategy<Value = SkCase> {
    (
        proptest::collection::vec((any::<u16>(), any::<u64>(), 0u8..4), 1..=8),
        0u8..6,
        proptest::collection::vec(fraw_point(), 1..=8),
        fraw(),
        0u8..7,
        0u8..3,
    )
        .prop_map(|(polys, extra_key, points, eta, buf, seed)| SkCase {
            polys,
            extra_key,
            points,
            eta,
            buf,
            seed,
        })
}

/// coefficient vector (little-endian) with `1..=257` coefficients; kind: 0 random, 1 low zeros, 2 high zero, 3 all zero
pub fn sk_poly(len_raw: u16, seed: u64, kind: u8) -> Vec<Fr> {
    let len = 1 + pick(len_raw, 257);
    let mut g = rng(seed);
    let mut v: Vec<Fr> = (0..len).map(|_| Fr::rand(&mut g)).collect();
    match kind {
        1 => {
            for x in v.iter_mut().take(len / 2) {
                *x = Fr::zero();
            }
        }
        2 => {
            let l = v.len();
            v[l - 1] = Fr::zero();
        }
        3 => {
            for x in v.iter_mut() {
                *x = Fr::zero();
            }
        }
        _ => {}
    }
    v
}

/// distinct evaluation points from raw choices (duplicates are shifted by a counter)
pub fn distinct_points(raw: &[FRaw]) -> Vec<Fr> {
    let mut out: Vec<Fr> = Vec::new();
    for r in raw {
        let mut z: Fr = r.to_f();
        while out.contains(&z) {
            z += Fr::one();
        }
        out.push(z);
    }
    out
}

pub fn sk_keys(max_degree: usize, max_points: usize, seed: u8) -> std::sync::Arc<CommitterKey<E>> {
    memo(format!("skzg:{}:{}:{}", max_degree, max_points, seed), || {
        Ok(CommitterKey::<E>::new(
            max_degree,
            max_points,
            &mut rng(0x77 + seed as u64),
        ))
    })
    .unwrap()
}

fn check_sk(c: &SkCase, ctx: &mut CaseCtx) -> Result<(), Failure> {
    let polys: Vec<Vec<Fr>> = c.polys.iter().map(|(l, s, k)| sk_poly(*l, *s, *k)).collect();
    let points = distinct_points(&c.points);
    let maxlen = polys.iter().map(|p| p.len()).max().unwrap();
    // key: at least as many G1 powers as coefficients and enough room for the evaluation points
    let key_deg = [0usize, 1, 2, 5, 17, 64][c.extra_key as usize] + (maxlen - 1).max(points.len());
    // round the key size so that the memo is effective
    let key_deg = (key_deg + 15) / 16 * 16;
    let ck = sk_keys(key_deg, 8, c.seed);
    let vk = VerifierKey::from(&*ck);
    let sck = CommitterKeyStream::from(&*ck);
    let buf = SK_BUFS[c.buf as usize];
    let eta: Fr = c.eta.to_f();
    ctx.label_if(polys.iter().any(|p| !p.len().is_power_of_two()), "non_power_of_two_length");
    ctx.label_if(points.len() >= 2, "multi_point");
    ctx.label_if(polys.len() >= 2, "multi_poly");
    ctx.label_if(buf < maxlen, "buffer_smaller_than_poly");
    ctx.nontrivial_if(points.len() >= 2 || polys.len() >= 2 || buf < maxlen);
    ctx.derived = Some(json!({"scheme":"skzg","lens": polys.iter().map(|p| p.len()).collect::<Vec<_>>(),
        "points": points.len(), "key_degree": key_deg, "buffer": buf}));

    // single-point openings, both provers
    let p0 = &polys[0];
    let alpha = points[0];
    let truth = horner(p0, alpha);
    let tc = guard_plain(|| ck.commit(p0));
    let tc = match tc {
        Out::Ok(c) => c,
        o => return ctx.fail(sig(P, "skzg", "time.commit", o.kind()), o.describe_nodebug()),
    };
    match guard_plain(|| ck.open(p0, &alpha)) {
        Out::Ok((ev, pr)) => {
            ctx.check(ev == truth, sig(P, "skzg", "time.open", "wrong_evaluation"), || {
                "time prover returned a wrong evaluation".into()
            })?;
            let r = guard(|| vk.verify(&tc, &alpha, &truth, &pr).map(|_| true));
            ctx.asserts += 1;
            stage_fail(ctx, P, "skzg", "verify(time)", &r)?;
        }
        o => return ctx.fail(sig(P, "skzg", "time.open", o.kind()), o.describe_nodebug()),
    }
    let be: Vec<Fr> = p0.iter().rev().cloned().collect();
    let be_stream = &be[..];
    match guard_plain(|| sck.open(&be_stream, &alpha, buf)) {
        Out::Ok((ev, pr)) => {
            ctx.check(ev == truth, sig(P, "skzg", "space.open", "wrong_evaluation"), || {
                "space prover returned a wrong evaluation".into()
            })?;
            let sc = match guard_plain(|| sck.commit(&Reverse(&p0[..]))) {
                Out::Ok(c) => c,
                o => return ctx.fail(sig(P, "skzg", "space.commit", o.kind()), o.describe_nodebug()),
            };
            let r = guard(|| vk.verify(&sc, &alpha, &truth, &pr).map(|_| true));
            ctx.asserts += 1;
            stage_fail(ctx, P, "skzg", "verify(space)", &r)?;
        }
        o => return ctx.fail(sig(P, "skzg", "space.open", o.kind()), o.describe_nodebug()),
    }

    // multi-point, multi-polynomial batched opening (time prover), verified against true evaluations
    let comms = match guard_plain(|| ck.batch_commit(&polys)) {
        Out::Ok(c) => c,
        o => return ctx.fail(sig(P, "skzg", "batch_commit", o.kind()), o.describe_nodebug()),
    };
    let evals: Vec<Vec<Fr>> = polys
        .iter()
        .map(|p| points.iter().map(|z| horner(p, *z)).collect())
        .collect();
    let refs: Vec<&Vec<Fr>> = polys.iter().collect();
    let proof = match guard_plain(|| ck.batch_open_multi_points(&refs, &points, &eta)) {
        Out::Ok(c) => c,
        o => {
            return ctx.fail(
                sig(P, "skzg", "batch_open_multi_points", o.kind()),
                o.describe_nodebug(),
            )
        }
    };
    let r = guard(|| {
        vk.verify_multi_points(&comms, &points, &evals, &proof, &eta)
            .map(|_| true)
    });
    ctx.asserts += 1;
    stage_fail(ctx, P, "skzg", "verify_multi_points(time)", &r)?;

    // space prover, one polynomial at several points
    match guard_plain(|| sck.open_multi_points(&be_stream, &points, buf)) {
        Out::Ok((_rem, pr)) => {
            let ev0 = vec![evals[0].clone()];
            let r = guard(|| {
                vk.verify_multi_points(&comms[..1], &points, &ev0, &pr, &Fr::one())
                    .map(|_| true)
            });
            ctx.asserts += 1;
            stage_fail(ctx, P, "skzg", "verify_multi_points(space)", &r)?;
        }
        o => {
            return ctx.fail(
                sig(P, "skzg", "space.open_multi_points", o.kind()),
                o.describe_nodebug(),
            )
        }
    }
    Ok(())
}

pub fn spec() -> PropertySpec {
    let budget = |name: &str| -> (u32, u32, usize) {
        match name {
            "marlin" | "sonic" => (160, 1600, 4),
            "pst13" => (160, 1600, 4),
            "ipa" => (240, 2400, 4),
            _ => (400, 4000, 2),
        }
    };
    let mut units: Vec<Box<dyn Unit>> = crate::per_scheme_units!(
        P,
        "open+batch",
        6,
        check_trait,
        budget,
        [Marlin, Sonic, Ipa, Pst13, Hyrax, ULigero, MLigero, Brakedown]
    );
    units.push(PropUnit::new(
        "C01:kzg10:check+batch_check",
        200,
        2000,
        2,
        |_| kzg_case().boxed(),
        check_kzg,
    ));
    units.push(PropUnit::new(
        "C01:mlpst:open+check",
        200,
        2000,
        2,
        |_| ml_case().boxed(),
        check_ml,
    ));
    units.push(PropUnit::new(
        "C01:skzg:time+space",
        200,
        2000,
        2,
        |_| sk_case().boxed(),
        check_sk,
    ));
    PropertySpec {
        id: "C01",
        rule: "Cases are raw scenarios (key shape, 1-6 polynomials with shape/degree/bound/hiding choices, 1-3 point values, 1-4 point labels with polynomial subsets, prover/verifier permutations, RNG seeds, sponge pre-state) generated by proptest and interpreted constructively per scheme; every stage of the honest flow must return Ok and the verifier Ok(true), for single open/check on every point label and for batch_open/batch_check. A case is non-trivial if it has >=2 polynomials under one point label, or two labels sharing a point value, or a degree bound > degree, or a hiding bound != degree, or a zero/leading-zero/mixed-monomial polynomial, or a non-identity permutation (KZG10: hiding or zero/leading-zero polynomial or a batch of >=2; mlpst: trimmed key, non-random shape or sparse representation; streaming: >=2 points or polynomials or a buffer smaller than the polynomial). distinct_nontrivial counts distinct raw scenarios (hash of their JSON) satisfying that rule.",
        assumptions: vec![
            "ark-poly's evaluate() is the ground truth for evaluations (Horner cross-check for streaming KZG)",
            "Poseidon test parameters (insecure, as in the repository's tests); BLS12-381 / JubJub instantiations only",
            "universal parameters are memoised per (scheme, size, seed) within one process",
        ],
        units,
        watchdog_s: (1500, 7200),
    }
}

#[allow(dead_code)]
fn _unused(_: Fr) -> bool {
    Fr::one().is_one() && <Fr as Field>::ONE.is_one()
}
