//! C10 — verifiers decide exactly the scheme's published verification relation.

use super::c01::{kzg_case, kzg_hiding, kzg_keys, ml_case, ml_keys, sk_case, sk_poly, distinct_points, KzgCase, MlCase, SkCase};
use super::common::*;
use crate::engine::{CaseCtx, Failure, PropUnit, PropertySpec, Unit};
use crate::model::{scn, Scn};
use crate::refv::{RefV, Tr};
use crate::schemes::*;
use crate::session::Session;
use crate::types::*;
use crate::util::{accepted, guard, guard_plain, pick, rng, Out};
use ark_ec::{pairing::Pairing, AffineRepr, CurveGroup};
use ark_ff::{Field, One, UniformRand, Zero};
use ark_poly::{DenseUVPolynomial, Polynomial};
use ark_poly_commit::streaming_kzg::{CommitterKeyStream, EvaluationProof, VerifierKey};
use ark_poly_commit::{LabeledCommitment, PolynomialCommitment};
use proptest::prelude::*;
use serde::{Deserialize, Serialize};
use serde_json::json;
use std::collections::{BTreeMap, BTreeSet};

const P: &str = "C10";

#[derive(Clone, Debug, Serialize, Deserialize)]
pub struct Case {
    pub scn: Scn,
    pub comp: u16,
    pub seed: u64,
    /// 0 = single check, 1 = batch_check against the conjunction over point labels
    pub entry: u8,
}

pub fn case() -> impl Strategy<Value = Case> {
    (scn(3), any::<u16>(), any::<u64>(), prop_oneof![3 => Just(0u8), 1 => Just(1u8)]).prop_map(|(scn, comp, seed, entry)| Case { scn, comp, seed, entry })
}

fn kind_of(name: &str) -> String {
    name.chars().filter(|c| !c.is_ascii_digit()).collect()
}

fn lib_check<S: Scheme>(t: &Tr<S>, pre: u64, seed: u64) -> Out<bool> {
    let mut sp = sponge::<S::F>(pre);
    let mut r = rng(seed);
    guard(|| S::PC::check(&t.vk, t.comms.iter(), &t.point, t.values.clone(), &t.proof, &mut sp, Some(&mut r)))
}

pub fn check_trait<S: RefV>(c: &Case, ctx: &mut CaseCtx) -> Result<(), Failure> {
    let tier = current_tier();
    let Ok(sess) = Session::<S>::build(&c.scn, tier) else {
        ctx.label("build_failed(C01)");
        return Ok(());
    };
    let pre = sess.pre;
    if c.entry == 1 {
        return check_batch::<S>(&sess, c, ctx);
    }
    let g = &sess.groups[(c.seed % sess.groups.len() as u64) as usize];
    let order = g.polys.clone();
    let Out::Ok(proof) = sess.open_idx(&order, &g.point, &mut sess.sponge(), sess.seeds[1]) else {
        ctx.label("open_failed(C01)");
        return Ok(());
    };
    let t = Tr::<S> {
        vk: sess.keys.vk.clone(),
        comms: order.iter().map(|i| sess.comms[*i].clone()).collect(),
        point: g.point.clone(),
        values: order.iter().map(|i| sess.true_value(*i, &g.point)).collect(),
        proof,
    };
    // the unmodified transcript: library accepts and the relation holds
    let lib0 = lib_check::<S>(&t, pre, c.seed);
    let ref0 = S::reference(&t, &mut sponge::<S::F>(pre));
    ctx.check(ref0, sig(P, S::NAME, "reference", "honest_proof_fails_the_relation"), || {
        format!("an honest proof does not satisfy the published relation as implemented by the reference verifier (library says {})", lib0.describe())
    })?;
    ctx.check(accepted(&lib0), sig(P, S::NAME, "check", "honest_rejected"), || lib0.describe())?;
    // one component replaced by another valid element of the same type
    let comps = S::components(&t);
    let k = pick(c.comp, comps.len());
    let mut t2 = t.clone();
    S::replace(&mut t2, k, c.seed);
    let lib = lib_check::<S>(&t2, pre, c.seed);
    let rf = S::reference(&t2, &mut sponge::<S::F>(pre));
    let kind = kind_of(&comps[k]);
    ctx.label(&format!("component:{kind}"));
    ctx.label_if(!rf, "relation_fails_after_replacement");
    ctx.nontrivial_if(!rf);
    ctx.derived = Some(json!({"scheme": S::NAME, "key": sess.keys.info.desc, "opened": order.len(), "replaced": comps[k], "reference": rf, "library": lib.describe()}));
    ctx.check(accepted(&lib) == rf, sig(P, S::NAME, "check", if accepted(&lib) { "accepts_where_relation_fails" } else { "rejects_where_relation_holds" }), || {
        format!("component {} replaced: library {} but the reference relation {}", comps[k], lib.describe(), if rf { "holds" } else { "fails" })
    })
}

fn check_batch<S: RefV>(sess: &Session<S>, c: &Case, ctx: &mut CaseCtx) -> Result<(), Failure> {
    let pre = sess.pre;
    let qs = sess.query_set();
    let Out::Ok(bp) = sess.batch_open(&qs, &mut sess.sponge(), sess.seeds[1]) else { return Ok(()) };
    let proofs: Vec<Proof<S>> = bp.into();
    if proofs.len() != sess.groups.len() {
        return Ok(());
    }
    let mut trs: Vec<Tr<S>> = sess
        .groups
        .iter()
        .zip(&proofs)
        .map(|(g, p)| Tr::<S> {
            vk: sess.keys.vk.clone(),
            comms: g.polys.iter().map(|i| sess.comms[*i].clone()).collect(),
            point: g.point.clone(),
            values: g.polys.iter().map(|i| sess.true_value(*i, &g.point)).collect(),
            proof: p.clone(),
        })
        .collect();
    let gi = (c.seed % trs.len() as u64) as usize;
    // components that can be replaced inside one point label of a batch: values, the point, proof parts, key elements
    let comps = S::components(&trs[gi]);
    let usable: Vec<usize> = (0..comps.len()).filter(|k| !comps[*k].starts_with("commitment") && !comps[*k].starts_with("degree_bound")).collect();
    let k = usable[pick(c.comp, usable.len())];
    let name = comps[k].clone();
    S::replace(&mut trs[gi], k, c.seed);
    if name.starts_with("vk.") {
        let vk = trs[gi].vk.clone();
        for t in trs.iter_mut() {
            t.vk = vk.clone();
        }
    }
    // rebuild the batch statement from the per-label transcripts
    let mut q2 = BTreeSet::new();
    let mut e2: BTreeMap<(String, S::Pt), S::F> = BTreeMap::new();
    for (g, t) in sess.groups.iter().zip(&trs) {
        for (j, i) in g.polys.iter().enumerate() {
            let l = sess.polys[*i].label().clone();
            q2.insert((l.clone(), (g.label.clone(), t.point.clone())));
            if let Some(old) = e2.insert((l, t.point.clone()), t.values[j]) {
                if old != t.values[j] {
                    ctx.label("conflicting_claims_skipped");
                    return Ok(());
                }
            }
        }
    }
    let bp2: BatchProof<S> = trs.iter().map(|t| t.proof.clone()).collect::<Vec<_>>().into();
    let mut sp = sponge::<S::F>(pre);
    let mut r = rng(c.seed);
    let lib = guard(|| S::PC::batch_check(&trs[0].vk, sess.comms.iter(), &q2, &e2, &bp2, &mut sp, &mut r));
    let mut sp = sponge::<S::F>(pre);
    let mut all = true;
    for t in &trs {
        all &= S::reference(t, &mut sp);
    }
    ctx.label(&format!("batch_component:{}", kind_of(&name)));
    ctx.nontrivial_if(!all && trs.len() >= 2);
    ctx.check(accepted(&lib) == all, sig(P, S::NAME, "batch_check", if accepted(&lib) { "accepts_where_relation_fails" } else { "rejects_where_relation_holds" }), || {
        format!("{} point labels, component {name} of label {gi} replaced: library {}, conjunction of the reference relation {all}", trs.len(), lib.describe())
    })
}

// ------------------------------------------------------------------------------------------------
// KZG10, multilinear PST, streaming KZG (inherent APIs)
// ------------------------------------------------------------------------------------------------

fn check_kzg(c: &KzgCase, ctx: &mut CaseCtx) -> Result<(), Failure> {
    let Ok(keys) = kzg_keys(c.max, c.supported, c.hiding_key, c.seed) else { return Ok(()) };
    let powers = keys.powers();
    let (pr, zr) = &c.items[0];
    let p = UniPoly::from_coefficients_vec(uni_coeffs::<Fr>(keys.supported, pr).0);
    let h = kzg_hiding(&keys, pr.hiding);
    let mut g = rng(c.seeds[0]);
    let Out::Ok((mut cm, rand)) = guard(|| Kzg::commit(&powers, &p, h, Some(&mut g))) else { return Ok(()) };
    let mut z: Fr = zr.to_f();
    let Out::Ok(mut proof) = guard(|| Kzg::open(&powers, &p, z, &rand)) else { return Ok(()) };
    let mut v = p.evaluate(&z);
    let mut vk = keys.vk.clone();
    let s = c.seeds[1];
    let names = ["none", "commitment", "value", "point", "proof.w", "proof.random_v", "vk.g", "vk.gamma_g", "vk.h", "vk.beta_h"];
    let k = (s % names.len() as u64) as usize;
    match k {
        1 => cm.0 = G1::rand(&mut g).into_affine(),
        2 => v = Fr::rand(&mut g),
        3 => z = Fr::rand(&mut g),
        4 => proof.w = G1::rand(&mut g).into_affine(),
        5 => proof.random_v = Some(Fr::rand(&mut g)),
        6 => vk.g = G1::rand(&mut g).into_affine(),
        7 => vk.gamma_g = G1::rand(&mut g).into_affine(),
        8 => {
            vk.h = G2::rand(&mut g).into_affine();
            vk.prepared_h = vk.h.into();
        }
        9 => {
            vk.beta_h = G2::rand(&mut g).into_affine();
            vk.prepared_beta_h = vk.beta_h.into();
        }
        _ => {}
    }
    ctx.label(&format!("component:{}", names[k]));
    let mut inner = cm.0.into_group() - vk.g * v;
    if let Some(rv) = proof.random_v {
        inner -= vk.gamma_g * rv;
    }
    let rf = E::pairing(inner, vk.h) == E::pairing(proof.w, vk.beta_h.into_group() - vk.h * z);
    ctx.nontrivial_if(!rf);
    let lib = guard(|| Kzg::check(&vk, &cm, z, v, &proof));
    ctx.check(accepted(&lib) == rf, sig(P, "kzg10", "check", if rf { "rejects_where_relation_holds" } else { "accepts_where_relation_fails" }), || format!("{}: library {}, relation {rf}", names[k], lib.describe()))?;
    let lib = guard(|| Kzg::batch_check(&vk, &[cm], &[z], &[v], &[proof], &mut rng(s)));
    ctx.check(accepted(&lib) == rf, sig(P, "kzg10", "batch_check", if rf { "rejects_where_relation_holds" } else { "accepts_where_relation_fails" }), || format!("{}: library {}, relation {rf}", names[k], lib.describe()))
}

fn check_ml(c: &MlCase, ctx: &mut CaseCtx) -> Result<(), Failure> {
    let Ok((_pp, ck, mut vk, _nvm, nv)) = ml_keys(c.nv_max, c.nv, c.seed) else { return Ok(()) };
    let built = mle_from_raw(nv, &c.poly);
    let mut point: Vec<Fr> = c.point.to_vec(nv);
    let mut v = built.poly.evaluate(&point);
    let (Out::Ok(mut cm), Out::Ok(mut pr)) = (guard_plain(|| MlPst::commit(&ck, &built.poly)), guard_plain(|| MlPst::open(&ck, &built.poly, &point))) else { return Ok(()) };
    let s = c.poly.seed;
    let mut g = rng(s);
    let names = ["none", "commitment", "value", "point[i]", "proof[i]", "vk.g", "vk.h", "vk.g_mask[i]"];
    let k = (s % names.len() as u64) as usize;
    let i = (s >> 8) as usize % nv;
    match k {
        1 => cm.g_product = G1::rand(&mut g).into_affine(),
        2 => v = Fr::rand(&mut g),
        3 => point[i] = Fr::rand(&mut g),
        4 => pr.proofs[i] = G2::rand(&mut g).into_affine(),
        5 => vk.g = G1::rand(&mut g).into_affine(),
        6 => vk.h = G2::rand(&mut g).into_affine(),
        7 => vk.g_mask_random[i] = G1::rand(&mut g).into_affine(),
        _ => {}
    }
    ctx.label(&format!("component:{}", names[k]));
    let lhs = E::pairing(cm.g_product.into_group() - vk.g * v, vk.h);
    let mut rhs = <E as Pairing>::TargetField::one();
    for j in 0..nv {
        rhs *= E::pairing(vk.g_mask_random[j].into_group() - vk.g * point[j], pr.proofs[j]).0;
    }
    let rf = lhs.0 == rhs;
    ctx.nontrivial_if(!rf);
    let lib = guard_plain(|| MlPst::check(&vk, &cm, &point, v, &pr));
    ctx.check(accepted(&lib) == rf, sig(P, "mlpst", "check", if rf { "rejects_where_relation_holds" } else { "accepts_where_relation_fails" }), || format!("{}: library {}, relation {rf}", names[k], lib.describe()))
}

fn check_sk(c: &SkCase, ctx: &mut CaseCtx) -> Result<(), Failure> {
    let polys: Vec<Vec<Fr>> = c.polys.iter().map(|(l, s, k)| sk_poly(*l, *s, *k)).collect();
    let points = distinct_points(&c.points);
    let maxlen = polys.iter().map(|p| p.len()).max().unwrap();
    let key_deg = ((maxlen - 1).max(points.len()) + 15) / 16 * 16;
    let ck = super::c01::sk_keys(key_deg, 8, c.seed);
    let vk = VerifierKey::from(&*ck);
    let sck = CommitterKeyStream::from(&*ck);
    let g0 = sck.powers_of_g.0[0];
    let (h0, h1) = (sck.powers_of_g2[0], sck.powers_of_g2[1]);
    let s = c.polys[0].1;
    let mut g = rng(s);
    let p0 = &polys[0];
    let mut alpha = points[0];
    let mut v = horner(p0, alpha);
    let mut committed = p0.clone();
    let Out::Ok((_e, mut pr)) = guard_plain(|| ck.open(p0, &alpha)) else { return Ok(()) };
    let names = ["none", "commitment", "value", "point", "proof"];
    let k = (s % names.len() as u64) as usize;
    match k {
        1 => committed = sk_poly((s >> 8) as u16, s ^ 5, 0),
        2 => v = Fr::rand(&mut g),
        3 => alpha = Fr::rand(&mut g),
        4 => pr = EvaluationProof(G1::rand(&mut g).into_affine()),
        _ => {}
    }
    if committed.len() > key_deg + 1 {
        return Ok(());
    }
    let Out::Ok(cm) = guard_plain(|| ck.commit(&committed)) else { return Ok(()) };
    // the commitment as a group element: the proof of X*f at 0 is commit(f)
    let Out::Ok((_z, as_pf)) = guard_plain(|| ck.open(&[vec![Fr::zero()], committed.clone()].concat(), &Fr::zero())) else { return Ok(()) };
    if committed.len() > key_deg {
        return Ok(());
    }
    ctx.label(&format!("component:{}", names[k]));
    let rf = E::pairing(as_pf.0.into_group() - g0 * v, h0) == E::pairing(pr.0, h1.into_group() - h0 * alpha);
    ctx.nontrivial_if(!rf);
    let lib = guard(|| vk.verify(&cm, &alpha, &v, &pr).map(|_| true));
    ctx.check(accepted(&lib) == rf, sig(P, "skzg", "verify", if rf { "rejects_where_relation_holds" } else { "accepts_where_relation_fails" }), || format!("{}: library {}, relation {rf}", names[k], lib.describe()))
}

/// Streaming KZG, batched multi-point verifier: e(sum_i eta^i C_i - [I(tau)]_1, g2) = e(pi, [Z(tau)]_2) with
/// I = sum_i eta^i I_i, I_i the interpolant of polynomial i's claimed evaluations, Z the vanishing polynomial.
fn check_sk_multi(c: &SkCase, ctx: &mut CaseCtx) -> Result<(), Failure> {
    let polys: Vec<Vec<Fr>> = c.polys.iter().map(|(l, s, k)| sk_poly(*l, *s, *k)).collect();
    let mut polys = polys;
    let mut points = distinct_points(&c.points);
    // ragged batches: one case in three shortens one polynomial (often the first) below the number of points
    {
        let s0 = c.polys[0].1;
        if (s0 >> 28) % 3 == 0 && points.len() >= 2 {
            let which = if (s0 >> 31) % 3 != 0 { 0 } else { (s0 >> 33) as usize % polys.len() };
            let keep = 1 + (s0 >> 36) as usize % (points.len() - 1);
            polys[which].truncate(keep);
        }
    }
    let maxlen = polys.iter().map(|p| p.len()).max().unwrap();
    let key_deg = ((maxlen - 1).max(points.len()) + 15) / 16 * 16;
    let ck = super::c01::sk_keys(key_deg, 8, c.seed);
    let vk = VerifierKey::from(&*ck);
    let sck = CommitterKeyStream::from(&*ck);
    let g1s: Vec<G1A> = sck.powers_of_g.0.to_vec();
    let g2s: Vec<G2A> = sck.powers_of_g2.to_vec();
    if g2s.len() < points.len() + 1 {
        ctx.label("more_points_than_g2_powers");
        return Ok(());
    }
    let s = c.polys[0].1;
    let mut g = rng(s ^ 0xe7a);
    let mut eta = Fr::rand(&mut g);
    let mut evals: Vec<Vec<Fr>> = polys.iter().map(|p| points.iter().map(|z| horner(p, *z)).collect()).collect();
    let refs: Vec<&Vec<Fr>> = polys.iter().collect();
    let Out::Ok(mut proof) = guard_plain(|| ck.batch_open_multi_points(&refs, &points, &eta)) else { return Ok(()) };
    let mut committed = polys.clone();
    let names = ["none", "commitment", "evaluation", "point", "proof", "eta"];
    let k = ((s >> 4) % names.len() as u64) as usize;
    let (pi, zi) = ((s >> 12) as usize % polys.len(), (s >> 20) as usize % points.len());
    match k {
        1 => committed[pi] = sk_poly((s >> 8) as u16 % (key_deg as u16 + 1), s ^ 5, 0),
        2 => evals[pi][zi] = Fr::rand(&mut g),
        3 => {
            let mut z = Fr::rand(&mut g);
            while points.contains(&z) {
                z = Fr::rand(&mut g);
            }
            points[zi] = z;
        }
        4 => proof = EvaluationProof(G1::rand(&mut g).into_affine()),
        5 => eta = Fr::rand(&mut g),
        _ => {}
    }
    if committed.iter().any(|p| p.len() > key_deg + 1 || p.len() > g1s.len()) {
        return Ok(());
    }
    let Out::Ok(comms) = guard_plain(|| ck.batch_commit(&committed)) else { return Ok(()) };
    let shorter_first = polys.len() >= 2 && polys[0].len() < points.len() && polys.iter().skip(1).any(|p| p.len() >= points.len());
    ctx.label(&format!("component:{}", names[k]));
    ctx.label_if(polys.len() >= 2, "several_polynomials");
    ctx.label_if(shorter_first, "first_interpolant_shorter_than_a_later_one");
    // reference
    let naive = |bases: &[G1A], sc: &[Fr]| -> G1 { bases.iter().zip(sc).map(|(b, x)| b.into_group() * *x).sum() };
    let mut cacc = G1::zero();
    let mut iacc = vec![Fr::zero(); points.len()];
    let mut pw = Fr::one();
    for (i, f) in committed.iter().enumerate() {
        cacc += naive(&g1s, f) * pw;
        // Lagrange interpolant of (points, evals[i]) in coefficient form
        for j in 0..points.len() {
            let mut num = vec![Fr::one()];
            let mut den = Fr::one();
            for m in 0..points.len() {
                if m != j {
                    let mut nx = vec![Fr::zero(); num.len() + 1];
                    for (t, cf) in num.iter().enumerate() {
                        nx[t + 1] += *cf;
                        nx[t] -= *cf * points[m];
                    }
                    num = nx;
                    den *= points[j] - points[m];
                }
            }
            let scale = evals[i][j] * den.inverse().unwrap() * pw;
            for (t, cf) in num.iter().enumerate() {
                iacc[t] += *cf * scale;
            }
        }
        pw *= eta;
    }
    let mut z = vec![Fr::one()];
    for x in &points {
        let mut nx = vec![Fr::zero(); z.len() + 1];
        for (t, cf) in z.iter().enumerate() {
            nx[t + 1] += *cf;
            nx[t] -= *cf * *x;
        }
        z = nx;
    }
    let z2: G2 = g2s.iter().zip(&z).map(|(b, x)| b.into_group() * *x).sum();
    let rf = E::pairing(cacc - naive(&g1s, &iacc), g2s[0]) == E::pairing(proof.0, z2);
    ctx.nontrivial_if(!rf || shorter_first);
    let lib = guard(|| vk.verify_multi_points(&comms, &points, &evals, &proof, &eta).map(|_| true));
    ctx.check(accepted(&lib) == rf, sig(P, "skzg", "verify_multi_points", if rf { "rejects_where_relation_holds" } else { "accepts_where_relation_fails" }), || {
        format!("{} polynomials (lengths {:?}), {} points, component {}: library {}, relation {rf}", polys.len(), polys.iter().map(|p| p.len()).collect::<Vec<_>>(), points.len(), names[k], lib.describe())
    })
}

pub fn spec() -> PropertySpec {
    let mut units: Vec<Box<dyn Unit>> = Vec::new();
    macro_rules! add {
        ($s:ty, $q:expr, $t:expr, $sh:expr) => {
            units.push(PropUnit::new(
                format!("C10:{}:relation", <$s as Scheme>::NAME),
                $q,
                $t,
                $sh,
                |_| case().boxed(),
                |c: &Case, ctx: &mut CaseCtx| check_trait::<$s>(c, ctx),
            ));
        };
    }
    add!(Marlin, 400, 3200, 4);
    add!(Sonic, 400, 3200, 4);
    add!(Ipa, 400, 3200, 6);
    add!(Pst13, 400, 3200, 4);
    add!(Hyrax, 400, 3200, 4);
    add!(ULigero, 400, 3200, 4);
    add!(MLigero, 400, 3200, 4);
    add!(Brakedown, 300, 2400, 6);
    // Combination openings: with honest commitments and the honest open_combinations proof, the relation
    // check_combinations decides holds exactly when the claimed combination values, coefficients and constants
    // are the true ones (C06's generator and ground-truth oracle; both directions are asserted).
    macro_rules! comb {
        ($s:ty, $q:expr, $t:expr) => {
            units.push(PropUnit::new(
                format!("C10:{}:combination-relation", <$s as Scheme>::NAME),
                $q,
                $t,
                4,
                |_| super::c06::case().prop_filter("a statement component is replaced", |c| c.mode != 5).boxed(),
                |c: &super::c06::Case, ctx: &mut CaseCtx| {
                    let mut inner = CaseCtx::new_like(ctx);
                    let r = super::c06::check_trait::<$s>(c, &mut inner);
                    ctx.absorb(inner);
                    match r {
                        Err(f) => ctx.fail(f.sig.replacen("C06:", "C10:", 1), f.msg),
                        Ok(()) => Ok(()),
                    }
                },
            ));
        };
    }
    comb!(Marlin, 100, 1000);
    comb!(Sonic, 100, 1000);
    comb!(Ipa, 60, 600);
    comb!(Pst13, 80, 800);
    comb!(Hyrax, 60, 600);
    comb!(ULigero, 40, 400);
    units.push(PropUnit::new("C10:kzg10:relation", 400, 3200, 2, |_| kzg_case().boxed(), check_kzg));
    units.push(PropUnit::new("C10:mlpst:relation", 300, 2400, 2, |_| ml_case().boxed(), check_ml));
    units.push(PropUnit::new("C10:skzg:relation", 300, 2400, 2, |_| sk_case().boxed(), check_sk));
    units.push(PropUnit::new("C10:skzg:multi-point-relation", 300, 2400, 2, |_| sk_case().boxed(), check_sk_multi));
    PropertySpec {
        id: "C10",
        rule: "Accepting single-point transcripts generated as for C01; one verifier-visible component (each commitment part, degree-bound label, value, point or point coordinate, every proof field / first and last elements of proof vectors, every verifier-key element including shift elements - a key element stored plain and prepared is replaced in both forms) is replaced by another valid random element of the same type, chosen by the case. Oracle: library verifier decision (success vs Ok(false)/Err/abort) equals the harness's reference verifier: KZG/Marlin/Sonic/PST13/multilinear-PST pairing equations over challenge-combined commitments and values, the full IPA relation (round challenges from Blake2s over uncompressed encodings, L/R folding, succinct check polynomial by the harness's own product expansion, final key as naive sum over the key), Hyrax equations (13),(14) plus the opening of the evaluation commitment, the Ligero/Brakedown reference verifier (own index derivation, Merkle authentication, column and well-formedness consistency, lengths, <v,a> = value), streaming verify and verify_multi_points (sum_i eta^i C_i against the eta-combination of the interpolants of the claimed evaluations and the vanishing polynomial in G2, for ragged polynomial lengths; commitment, evaluation, point, proof or eta replaced); all with the harness's own sponge replay. The unmodified transcript must satisfy the reference relation and be accepted. batch_check is compared with the conjunction of the reference relation over the point labels on one threaded sponge after replacing a value, point, proof part or key element in one label. check_combinations (Marlin, Sonic, IPA, PST13, Hyrax, univariate Ligero): with honest commitments and the honest proof the decision must equal the truth of the stated combinations after a claimed value, a verifier-side coefficient, a constant or the transmitted evaluations are replaced (C06's generator and ground-truth oracle under C10's name). Non-trivial: the reference says the relation fails after the replacement.",
        assumptions: vec![
            "the relations implemented by the reference verifiers are the schemes' published ones (module docs and the papers they cite)",
            "commitment replacements inside batches are left to C02 (one commitment per label is shared by all labels)",
        ],
        units,
        watchdog_s: (1800, 7200),
    }
}

#[allow(dead_code)]
fn _g<F: Field>(_: F, _: LabeledCommitment<ark_poly_commit::kzg10::Commitment<E>>) -> bool {
    G1A::zero().is_zero()
}
