pub mod c01;
pub mod c02;
pub mod c03;
pub mod common;

use crate::engine::PropertySpec;

pub fn spec(id: &str) -> Option<PropertySpec> {
    match id {
        "C01" => Some(c01::spec()),
        "C02" => Some(c02::spec()),
        "C03" => Some(c03::spec()),
        _ => None,
    }
}

pub const ALL: [&str; 3] = ["C01", "C02", "C03"];
