pub mod c01;
pub mod common;

use crate::engine::PropertySpec;

pub fn spec(id: &str) -> Option<PropertySpec> {
    match id {
        "C01" => Some(c01::spec()),
        _ => None,
    }
}

pub const ALL: [&str; 1] = ["C01"];
