pub mod c01;
pub mod c02;
pub mod common;

use crate::engine::PropertySpec;

pub fn spec(id: &str) -> Option<PropertySpec> {
    match id {
        "C01" => Some(c01::spec()),
        "C02" => Some(c02::spec()),
        _ => None,
    }
}

pub const ALL: [&str; 2] = ["C01", "C02"];
