pub mod c01;
pub mod c02;
pub mod c03;
pub mod c04;
pub mod c05;
pub mod c06;
pub mod c07;
pub mod c08;
pub mod c09;
pub mod c10;
pub mod c11;
pub mod c12;
pub mod c13;
pub mod c14;
pub mod c15;
pub mod c16;
pub mod c17;
pub mod c18;
pub mod c19;
pub mod common;

use crate::engine::PropertySpec;

pub fn spec(id: &str) -> Option<PropertySpec> {
    match id {
        "C01" => Some(c01::spec()),
        "C02" => Some(c02::spec()),
        "C03" => Some(c03::spec()),
        "C04" => Some(c04::spec()),
        "C05" => Some(c05::spec()),
        "C06" => Some(c06::spec()),
        "C07" => Some(c07::spec()),
        "C08" => Some(c08::spec()),
        "C09" => Some(c09::spec()),
        "C10" => Some(c10::spec()),
        "C11" => Some(c11::spec()),
        "C12" => Some(c12::spec()),
        "C13" => Some(c13::spec()),
        "C14" => Some(c14::spec()),
        "C15" => Some(c15::spec()),
        "C16" => Some(c16::spec()),
        "C17" => Some(c17::spec()),
        "C18" => Some(c18::spec()),
        "C19" => Some(c19::spec()),
        _ => None,
    }
}

pub const ALL: [&str; 19] = ["C01", "C02", "C03", "C04", "C05", "C06", "C07", "C08", "C09", "C10", "C11", "C12", "C13", "C14", "C15", "C16", "C17", "C18", "C19"];
