//! C19 — succinctness: commitment and proof sizes follow each scheme's asymptotics.

use super::c01::{kzg_hiding, kzg_keys, ml_keys, sk_keys, sk_poly};
use super::common::*;
use crate::engine::{CaseCtx, Failure, PropUnit, PropertySpec, Unit};
use crate::lincode::{self, Lin, MProof};
use crate::model::{scn, Scn};
use crate::schemes::*;
use crate::session::Session;
use crate::types::*;
use crate::util::{guard, guard_plain, pick, rng, Out};
use ark_ec::AffineRepr;
use ark_ff::{UniformRand, Zero};
use ark_poly::{DenseUVPolynomial, Polynomial};
use ark_poly_commit::{LabeledPolynomial, PCCommitterKey, PolynomialCommitment};
use ark_serialize::{CanonicalSerialize, Compress};
use proptest::prelude::*;
use serde::{Deserialize, Serialize};
use serde_json::json;

const P: &str = "C19";

fn sz<T: CanonicalSerialize>(x: &T) -> usize {
    x.serialized_size(Compress::Yes)
}
fn g1() -> usize {
    sz(&G1A::zero())
}
fn g2() -> usize {
    sz(&G2A::zero())
}
fn jg() -> usize {
    sz(&JAff::zero())
}
fn fr() -> usize {
    sz(&Fr::zero())
}
fn jf() -> usize {
    sz(&JFr::zero())
}
const TAG: usize = 1; // Option discriminant
const LEN: usize = 8; // Vec length prefix

/// scheme-specific size law for one opened group
pub trait SizeLaw: Scheme {
    fn commitment_size(sess: &Session<Self>, i: usize) -> usize;
    fn proof_size(sess: &Session<Self>, order: &[usize]) -> usize;
    /// the per-label proofs of `open_combinations` obey the same law as those of `batch_open`
    const LC_LAW: bool = true;
    /// a point at which the blinding polynomial of this commitment state vanishes (a hiding proof must
    /// keep its size there); None = no such point found / the scheme's proofs carry no blinding value
    fn blinding_root(_sess: &Session<Self>, _st: &State<Self>, _seed: u64) -> Option<Self::Pt> {
        None
    }
}

/// a root of a polynomial of degree 1 or 2 over the field, if it has one
fn small_root(c: &[Fr]) -> Option<Fr> {
    use ark_ff::Field;
    match c.len() {
        2 if !c[1].is_zero() => Some(-c[0] / c[1]),
        3 if !c[2].is_zero() => {
            let disc = c[1] * c[1] - Fr::from(4u64) * c[2] * c[0];
            let s = disc.sqrt()?;
            Some((s - c[1]) / (c[2] + c[2]))
        }
        _ => None,
    }
}

impl SizeLaw for Marlin {
    fn commitment_size(sess: &Session<Self>, i: usize) -> usize {
        g1() + TAG + if sess.meta[i].bound.is_some() { g1() } else { 0 }
    }
    fn blinding_root(_sess: &Session<Self>, st: &State<Self>, _seed: u64) -> Option<Fr> {
        small_root(st.rand.blinding_polynomial.coeffs())
    }
    fn proof_size(sess: &Session<Self>, order: &[usize]) -> usize {
        g1() + TAG + if order.iter().any(|i| sess.meta[*i].hiding.is_some()) { fr() } else { 0 }
    }
}
impl SizeLaw for Sonic {
    fn commitment_size(_sess: &Session<Self>, _i: usize) -> usize {
        g1()
    }
    fn blinding_root(_sess: &Session<Self>, st: &State<Self>, _seed: u64) -> Option<Fr> {
        small_root(st.blinding_polynomial.coeffs())
    }
    fn proof_size(sess: &Session<Self>, order: &[usize]) -> usize {
        g1() + TAG + if order.iter().any(|i| sess.meta[*i].hiding.is_some()) { fr() } else { 0 }
    }
}
impl SizeLaw for Ipa {
    fn commitment_size(sess: &Session<Self>, i: usize) -> usize {
        jg() + TAG + if sess.meta[i].bound.is_some() { jg() } else { 0 }
    }
    fn proof_size(sess: &Session<Self>, order: &[usize]) -> usize {
        // rounds follow the supported degree that was *requested* from trim (rounded up to 2^k - 1), not
        // whatever the key reports
        let req = sess.keys.info.desc["supported_requested"].as_u64().map(|x| x as usize).unwrap_or(sess.keys.ck.supported_degree());
        let k = (req + 1).next_power_of_two().trailing_zeros() as usize;
        let hid = order.iter().any(|i| sess.meta[*i].hiding.is_some());
        2 * (LEN + k * jg()) + jg() + jf() + (TAG + if hid { jg() } else { 0 }) + (TAG + if hid { jf() } else { 0 })
    }
}
impl SizeLaw for Pst13 {
    fn commitment_size(_sess: &Session<Self>, _i: usize) -> usize {
        g1() + TAG
    }
    fn blinding_root(sess: &Session<Self>, st: &State<Self>, seed: u64) -> Option<Vec<Fr>> {
        use ark_poly::{multivariate::Term, DenseMVPolynomial};
        // every monomial of the blinding polynomial is univariate: fix x_1.. at random, solve for x_0
        let n = sess.keys.info.num_vars;
        let mut g = rng(seed ^ 0xb11d);
        let mut z: Vec<Fr> = (0..n).map(|_| Fr::rand(&mut g)).collect();
        let mut c = vec![Fr::zero(); 3];
        for (cf, t) in st.blinding_polynomial.terms() {
            if t.is_constant() {
                c[0] += *cf;
            } else {
                let v = t.vars();
                if v.len() != 1 {
                    return None;
                }
                if v[0] == 0 {
                    if t.degree() > 2 {
                        return None;
                    }
                    c[t.degree()] += *cf;
                } else {
                    c[0] += *cf * t.evaluate(&z);
                }
            }
        }
        while c.len() > 1 && c[c.len() - 1].is_zero() {
            c.pop();
        }
        z[0] = small_root(&c)?;
        Some(z)
    }
    fn proof_size(sess: &Session<Self>, order: &[usize]) -> usize {
        LEN + sess.keys.info.num_vars * g1() + TAG + if order.iter().any(|i| sess.meta[*i].hiding.is_some()) { fr() } else { 0 }
    }
}
impl SizeLaw for Hyrax {
    const LC_LAW: bool = false;
    fn commitment_size(sess: &Session<Self>, _i: usize) -> usize {
        LEN + (1usize << (sess.keys.info.num_vars / 2)) * g1()
    }
    fn proof_size(sess: &Session<Self>, order: &[usize]) -> usize {
        let dim = 1usize << (sess.keys.info.num_vars / 2);
        // com_eval, com_d, com_b; z (dim scalars); z_d, z_b and the opening randomness r_eval of com_eval
        LEN + order.len() * (3 * g1() + LEN + dim * fr() + 3 * fr())
    }
}

pub fn check_alg<S: SizeLaw>(c: &Scn, ctx: &mut CaseCtx) -> Result<(), Failure> {
    let tier = current_tier();
    let Ok(sess) = Session::<S>::build(c, tier) else {
        ctx.label("build_failed(C01)");
        return Ok(());
    };
    classify(&sess, ctx);
    ctx.nontrivial_if(sess.meta.iter().any(|m| m.deg + 1 < sess.keys.info.supported.max(2)) || sess.groups.len() >= 2);
    ctx.derived = Some(sess.describe());
    for i in 0..sess.n() {
        let got = sz(sess.comms[i].commitment());
        let want = S::commitment_size(&sess, i);
        ctx.check(got == want, sig(P, S::NAME, "commitment", "size_law"), || {
            format!("commitment of polynomial {i} (degree {}, bound {:?}) has {got} bytes, law says {want}", sess.meta[i].deg, sess.meta[i].bound)
        })?;
    }
    let qs = sess.query_set();
    let Out::Ok(bp) = sess.batch_open(&qs, &mut sess.sponge(), sess.seeds[1]) else { return Ok(()) };
    let total = sz(&bp);
    let proofs: Vec<Proof<S>> = bp.into();
    ctx.check(proofs.len() == sess.groups.len(), sig(P, S::NAME, "batch_proof", "one_proof_per_point_label"), || {
        format!("{} proofs for {} point labels", proofs.len(), sess.groups.len())
    })?;
    let mut sum = LEN;
    for (g, p) in sess.groups.iter().zip(&proofs) {
        let got = S::proof_bytes(p, true).len();
        let want = S::proof_size(&sess, &g.polys);
        ctx.check(got == want, sig(P, S::NAME, "proof", "size_law"), || {
            format!("proof for label {} ({} polynomials, degrees {:?}) has {got} bytes, law says {want}", g.label, g.polys.len(), g.polys.iter().map(|i| sess.meta[*i].deg).collect::<Vec<_>>())
        })?;
        sum += got;
    }
    ctx.check(total == sum, sig(P, S::NAME, "batch_proof", "size_law"), || format!("batch proof has {total} bytes, its proofs sum to {sum}"))?;
    // a hiding proof keeps its size at a point where the blinding polynomial happens to vanish: the
    // polynomial is committed again with hiding bound 1 (a blinding polynomial of degree <= 2, whose
    // roots the prover can compute) until a root exists, and opened there
    if S::HAS_HIDING {
        if let Some(i) = (0..sess.n()).find(|i| sess.meta[*i].hiding.is_some()) {
            let lp = LabeledPolynomial::new(sess.polys[i].label().clone(), sess.polys[i].polynomial().clone(), sess.meta[i].bound, Some(1));
            for attempt in 0..4u64 {
                let mut r = rng(sess.seeds[0] ^ (0x5eed + attempt));
                let Out::Ok((cm, st)) = guard(|| S::PC::commit(&sess.keys.ck, [&lp], Some(&mut r))) else { break };
                let Some(z) = S::blinding_root(&sess, &st[0], sess.seeds[2] ^ attempt) else { continue };
                let mut r = rng(sess.seeds[1]);
                let Out::Ok(pr) = guard(|| S::PC::open(&sess.keys.ck, [&lp], &cm, &z, &mut sess.sponge(), &st, Some(&mut r))) else { break };
                ctx.label("hiding_proof_at_a_root_of_the_blinding_polynomial");
                let got = S::proof_bytes(&pr, true).len();
                let want = S::proof_size(&sess, &[i]);
                ctx.check(got == want, sig(P, S::NAME, "proof", "size_law"), || {
                    format!("hiding proof of polynomial {i} opened at a root of its blinding polynomial has {got} bytes, law says {want}")
                })?;
                break;
            }
        }
    }
    if !S::LC_LAW {
        return Ok(());
    }
    // combination openings: one single-term combination per polynomial (in the prover's listing order,
    // coefficient 1 for degree-bounded polynomials, which may not be scaled), queried where the
    // polynomial is queried; the proof of each point label obeys the law of the polynomials opened there
    use ark_poly_commit::{LCTerm, LinearCombination};
    let mut lcs = Vec::new();
    for (n, i) in sess.perm_p.iter().enumerate() {
        let coeff = if sess.meta[*i].bound.is_some() { S::F::from(1u64) } else { S::F::from(n as u64 + 2) };
        lcs.push(LinearCombination::new(format!("lc{i}"), vec![(coeff, LCTerm::PolyLabel(sess.polys[*i].label().clone()))]));
    }
    let mut lqs = std::collections::BTreeSet::new();
    for g in &sess.groups {
        for i in &g.polys {
            lqs.insert((format!("lc{i}"), (g.label.clone(), g.point.clone())));
        }
    }
    let ps: Vec<_> = sess.perm_p.iter().map(|i| &sess.polys[*i]).collect();
    let cs: Vec<_> = sess.perm_p.iter().map(|i| &sess.comms[*i]).collect();
    let ss: Vec<_> = sess.perm_p.iter().map(|i| &sess.states[*i]).collect();
    let mut r = rng(sess.seeds[1]);
    let mut sp = sess.sponge();
    let Out::Ok(lp) = guard(|| S::PC::open_combinations(&sess.keys.ck, &lcs, ps, cs, &lqs, &mut sp, ss, Some(&mut r))) else {
        ctx.label("open_combinations_failed(C06)");
        return Ok(());
    };
    ctx.label("combination_proof_sizes_checked");
    let proofs: Vec<Proof<S>> = lp.proof.into();
    ctx.check(proofs.len() == sess.groups.len(), sig(P, S::NAME, "combination_proof", "one_proof_per_point_label"), || {
        format!("{} proofs for {} point labels", proofs.len(), sess.groups.len())
    })?;
    for (g, p) in sess.groups.iter().zip(&proofs) {
        let got = S::proof_bytes(p, true).len();
        let want = S::proof_size(&sess, &g.polys);
        ctx.check(got == want, sig(P, S::NAME, "combination_proof", "size_law"), || {
            format!("combination proof for label {} ({} polynomials, hiding {:?}) has {got} bytes, law says {want}", g.label, g.polys.len(), g.polys.iter().map(|i| sess.meta[*i].hiding.is_some()).collect::<Vec<_>>())
        })?;
    }
    Ok(())
}

// ------------------------------------------------------------------------------------------------
// code-based schemes
// ------------------------------------------------------------------------------------------------

fn path_bytes(n_ext: usize) -> usize {
    let leaves = n_ext.next_power_of_two().max(2);
    let depth = leaves.trailing_zeros() as usize - 1;
    (LEN + 32) + (LEN + depth * (LEN + 32)) + 8
}

/// modelled proof size for one polynomial of `len` coefficients arranged in `rows` rows
fn model<S: Lin>(ck: &Ck<S>, len: usize, rows: usize, n_ext_of: &dyn Fn(usize) -> usize) -> Option<f64> {
    let cols = (len + rows - 1) / rows;
    let n_ext = n_ext_of(cols);
    let t = lincode::expected_t::<Fr>(S::sec_param(ck), S::dist(ck), n_ext)?;
    let wf = if S::wf(ck) { 2 } else { 1 };
    Some((t * (LEN + rows * fr() + path_bytes(n_ext)) + wf * (LEN + cols * fr())) as f64)
}

pub fn check_lin<S: Lin>(c: &Scn, ctx: &mut CaseCtx, n_ext_of: &dyn Fn(&Ck<S>, usize) -> usize) -> Result<(), Failure> {
    let tier = current_tier();
    let mut scn1 = c.clone();
    scn1.polys.truncate(1);
    // sizes along a ladder: prefer full-size random polynomials
    scn1.polys[0].shape = 6;
    let Ok(sess) = Session::<S>::build(&scn1, tier) else { return Ok(()) };
    let ck = &sess.keys.ck;
    let len = lincode::poly_vec::<S>(sess.polys[0].polynomial()).len().max(1);
    let mc = lincode::comm_mirror::<S>(&sess.comms[0]).map_err(|e| Failure { sig: sig(P, S::NAME, "commit", "mirror"), msg: e })?;
    let csz = sz(sess.comms[0].commitment());
    ctx.check(csz == 3 * 8 + LEN + 32, sig(P, S::NAME, "commitment", "size_law"), || format!("commitment has {csz} bytes, expected metadata + one digest"))?;
    let g = &sess.groups[0];
    let Out::Ok(proof) = sess.open_idx(&[0], &g.point, &mut sess.sponge(), 1) else { return Ok(()) };
    let bytes = S::proof_bytes(&proof, true).len() as f64;
    let mp: Vec<MProof> = lincode::proofs_mirror::<S>(&proof).map_err(|e| Failure { sig: sig(P, S::NAME, "open", "mirror"), msg: e })?;
    let (rows, cols, n_ext) = (mc.metadata.n_rows, mc.metadata.n_cols, mc.metadata.n_ext_cols);
    let t = mp[0].opening.columns.len();
    let wf = if S::wf(ck) { 2 } else { 1 };
    // law 1: nothing but the modelled parts is shipped
    let actual_model = (LEN + t * (LEN + rows * fr() + path_bytes(n_ext)) + 2 * LEN + wf * (LEN + cols * fr()) + TAG) as f64;
    ctx.label_if(t < n_ext, "uncapped_t");
    ctx.nontrivial_if(len >= 64);
    // law 2: within 4x of the best power-of-two shape. A shape is *succinct* when its t is below its codeword
    // length; an actual succinct shape is compared with the succinct alternatives only (a shape that opens
    // every column ships the whole polynomial and is not what "best shape" means once t < n applies).
    let actual_succinct = t < n_ext;
    let mut best = f64::INFINITY;
    let mut best_rows = 0usize;
    let mut r = 1usize;
    while r <= len.next_power_of_two() {
        let cols_r = (len + r - 1) / r;
        let n_ext_r = n_ext_of(ck, cols_r);
        let t_r = lincode::expected_t::<Fr>(S::sec_param(ck), S::dist(ck), n_ext_r);
        let succinct_r = t_r.map(|x| x < n_ext_r).unwrap_or(false);
        if !actual_succinct || succinct_r {
            if let Some(m) = model::<S>(ck, len, r, &|cols| n_ext_of(ck, cols)) {
                if m < best {
                    best = m;
                    best_rows = r;
                }
            }
        }
        r *= 2;
    }
    ctx.label_if(actual_succinct, "succinct_shape");
    ctx.derived = Some(json!({"scheme": S::NAME, "key": sess.keys.info.desc, "coefficients": len, "rows": rows, "cols": cols, "n_ext_cols": n_ext, "t": t,
        "proof_bytes": bytes, "model_of_actual_shape": actual_model, "best_rows": best_rows, "best_model_bytes": best, "ratio_to_best": bytes / best}));
    // law 0: the codeword is as long as the code's rate says for this row length (so that the known finding
    // below - "every column is opened" - cannot hide a codeword that is simply too long)
    let n_ext_model = n_ext_of(ck, cols);
    ctx.check(n_ext as f64 <= 1.25 * n_ext_model as f64 + 2.0, sig(P, S::NAME, "commitment", "codeword_longer_than_the_rate"), || {
        format!("{len} coefficients, {rows} x {cols} matrix: rows are encoded to {n_ext} symbols, the code's rate gives {n_ext_model}")
    })?;
    ctx.check(bytes <= 1.25 * actual_model, sig(P, S::NAME, "proof", "extra_data_shipped"), || {
        format!("proof has {bytes} bytes but its own shape ({rows} x {cols}, {t} columns of a {n_ext}-word code) accounts for {actual_model}")
    })?;
    if best.is_finite() {
        // root cause F15: with t capped at the codeword length the heuristic n = sqrt(2*len/t) degenerates to 2 rows
        let capped_two_rows = rows == 2 && t == n_ext;
        let class = if capped_two_rows { "two_row_matrix_while_every_column_is_opened" } else { "exceeds_4x_best_shape" };
        ctx.check(bytes <= 4.0 * best, sig(P, S::NAME, "proof_size", class), || {
            format!("{len} coefficients: proof has {bytes} bytes with a {rows} x {cols} matrix ({t} of {n_ext} columns opened); the best power-of-two shape ({best_rows} rows) is modelled at {best:.0} bytes, ratio {:.2}", bytes / best)
        })?;
    }
    Ok(())
}

fn check_uligero(c: &Scn, ctx: &mut CaseCtx) -> Result<(), Failure> {
    check_lin::<ULigero>(c, ctx, &|ck, cols| (cols * lig_rho(ck)).next_power_of_two())
}
fn check_mligero(c: &Scn, ctx: &mut CaseCtx) -> Result<(), Failure> {
    check_lin::<MLigero>(c, ctx, &|ck, cols| (cols * lig_rho(ck)).next_power_of_two())
}
fn lig_rho(ck: &LigeroParams) -> usize {
    lincode::ligero_ref_distance(ck).map(|d| d.1).unwrap_or(2)
}
fn check_brakedown(c: &Scn, ctx: &mut CaseCtx) -> Result<(), Failure> {
    // codeword length of the expander code for a message of `cols` words: rate 1000/1521 (rounded up)
    check_lin::<Brakedown>(c, ctx, &|_ck, cols| (cols * 1521 + 999) / 1000)
}

// ------------------------------------------------------------------------------------------------
// inherent-API schemes
// ------------------------------------------------------------------------------------------------

#[derive(Clone, Debug, Serialize, Deserialize)]
pub struct Small {
    pub a: u16,
    pub b: u16,
    pub seed: u64,
}

fn check_inherent(c: &Small, ctx: &mut CaseCtx) -> Result<(), Failure> {
    ctx.nontrivial = true;
    // KZG10
    if let Ok(keys) = kzg_keys(c.a, c.b, (c.seed % 256) as u8, (c.seed % 4) as u8) {
        let deg = pick(c.b, keys.supported + 1);
        let p = UniPoly::from_coefficients_vec((0..=deg).map(|i| Fr::from(i as u64 + 1)).collect());
        for h in [None, kzg_hiding(&keys, 200)] {
            let mut r = rng(c.seed);
            if let Out::Ok((cm, rand)) = guard(|| Kzg::commit(&keys.powers(), &p, h, Some(&mut r))) {
                ctx.check(sz(&cm) == g1(), sig(P, "kzg10", "commitment", "size_law"), || format!("{} bytes", sz(&cm)))?;
                if let Out::Ok(pr) = guard(|| Kzg::open(&keys.powers(), &p, Fr::from(5u64), &rand)) {
                    let want = g1() + TAG + if h.is_some() { fr() } else { 0 };
                    ctx.check(sz(&pr) == want, sig(P, "kzg10", "proof", "size_law"), || format!("degree {deg}: proof has {} bytes, law says {want}", sz(&pr)))?;
                }
            }
        }
    }
    // multilinear PST
    if let Ok((_pp, ck, _vk, _nvm, nv)) = ml_keys(c.a, c.b, (c.seed % 3) as u8) {
        let mut g = rng(c.seed);
        let p = MLE::from_evaluations_vec(nv, (0..1 << nv).map(|_| Fr::rand(&mut g)).collect());
        let pt: Vec<Fr> = (0..nv).map(|_| Fr::rand(&mut g)).collect();
        if let (Out::Ok(cm), Out::Ok(pr)) = (guard_plain(|| MlPst::commit(&ck, &p)), guard_plain(|| MlPst::open(&ck, &p, &pt))) {
            ctx.check(sz(&cm) == 8 + g1(), sig(P, "mlpst", "commitment", "size_law"), || format!("{} bytes", sz(&cm)))?;
            ctx.check(sz(&pr) == LEN + nv * g2(), sig(P, "mlpst", "proof", "size_law"), || format!("{nv} variables: proof has {} bytes", sz(&pr)))?;
        }
    }
    // streaming KZG
    let p = sk_poly(c.a, c.seed, 0);
    let ck = sk_keys((p.len() + 15) / 16 * 16, 8, (c.seed % 3) as u8);
    if let (Out::Ok(cm), Out::Ok((_e, pr))) = (guard_plain(|| ck.commit(&p)), guard_plain(|| ck.open(&p, &Fr::from(3u64)))) {
        ctx.check(cm.size_in_bytes() == g1(), sig(P, "skzg", "commitment", "size_law"), || format!("size_in_bytes = {}", cm.size_in_bytes()))?;
        ctx.check(sz(&pr.0) == g1(), sig(P, "skzg", "proof", "size_law"), || "proof is not one G1 element".into())?;
    }
    Ok(())
}

pub fn spec() -> PropertySpec {
    let mut units: Vec<Box<dyn Unit>> = Vec::new();
    macro_rules! add {
        ($s:ty, $q:expr, $t:expr, $sh:expr) => {
            units.push(PropUnit::new(
                format!("C19:{}:size-law", <$s as Scheme>::NAME),
                $q,
                $t,
                $sh,
                |_| scn(4).boxed(),
                |c: &Scn, ctx: &mut CaseCtx| check_alg::<$s>(c, ctx),
            ));
        };
    }
    add!(Marlin, 120, 1200, 4);
    add!(Sonic, 120, 1200, 4);
    add!(Ipa, 120, 1200, 4);
    add!(Pst13, 120, 1200, 4);
    add!(Hyrax, 120, 1200, 4);
    units.push(PropUnit::new("C19:uligero:proof-size", 160, 1600, 4, |_| scn(1).boxed(), check_uligero));
    units.push(PropUnit::new("C19:mligero:proof-size", 160, 1600, 4, |_| scn(1).boxed(), check_mligero));
    units.push(PropUnit::new("C19:brakedown:proof-size", 100, 1000, 4, |_| scn(1).boxed(), check_brakedown));
    units.push(PropUnit::new(
        "C19:inherent:size-law",
        200,
        2000,
        2,
        |_| (any::<u16>(), any::<u16>(), any::<u64>()).prop_map(|(a, b, seed)| Small { a, b, seed }).boxed(),
        check_inherent,
    ));
    PropertySpec {
        id: "C19",
        rule: "(Combination openings of the four algebraic trait schemes: one single-term combination per polynomial, the proof of each point label has the size the law gives for the polynomials opened there.) Serialized (compressed) sizes of commitments, proofs and batch proofs along generated transcripts, with element sizes measured from the curve types. Equalities: KZG10/Marlin/Sonic commitment = one G1 (+ option tag, + one G1 with a bound for Marlin), proof = one G1 + Option<F> regardless of the degree; batch proof = length prefix + one proof per point label; PST13 proof = num_vars G1 + Option<F>; multilinear PST proof = nv G2, commitment = usize + G1; IPA proof = 2*log2(supported+1) group elements + final key + scalar + two options, independent of the committed degree; Hyrax commitment = 2^(n/2) group elements, proof per polynomial = 3 group elements + (2^(n/2) + 3) scalars (the third scalar is the r_eval added by the repair of F1); streaming commitment size_in_bytes = one G1, proof one G1. Ligero/Brakedown: commitment = metadata + one digest; proof <= 1.25 x the size its own shape accounts for (t columns of n_rows scalars with their Merkle paths plus (1+wf) vectors of n_cols scalars), and proof <= 4 x the minimum over power-of-two row counts of that model evaluated with the exact t of C13 (when the actual shape is succinct, i.e. t < codeword length, the minimum ranges over succinct shapes only; otherwise over all shapes). Non-trivial: polynomial degree below the supported degree or >= 2 point labels (group schemes); >= 64 coefficients (code-based).",
        assumptions: vec![
            "Brakedown's codeword length for alternative shapes is modelled by its rate 1000/1521",
            "the 4x law is the one stated in the property's quantifier",
        ],
        units,
        watchdog_s: (1500, 7200),
    }
}
