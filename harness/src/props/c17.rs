//! C17 — out-of-domain requests are refused, never answered with a wrong result.

use super::c01::{kzg_keys, ml_keys};
use super::c02::delta;
use super::common::*;
use crate::engine::{CaseCtx, Failure, PropUnit, PropertySpec, Unit};
use crate::model::{scn, Scn};
use crate::schemes::*;
use crate::session::Session;
use crate::types::*;
use crate::util::{accepted, guard, guard_plain, pick, rng, Out};
use ark_ff::{One, UniformRand, Zero};
use ark_poly::{multivariate::{SparseTerm, Term}, DenseMVPolynomial, DenseUVPolynomial, Polynomial};
use ark_poly_commit::{LabeledCommitment, LabeledPolynomial, PolynomialCommitment};
use proptest::prelude::*;
use serde::{Deserialize, Serialize};
use serde_json::json;

const P: &str = "C17";

#[derive(Clone, Debug, Serialize, Deserialize)]
pub struct Case {
    pub scn: Scn,
    pub kind: u8,
    pub mag: u8,
    pub sel: u64,
}

pub fn case() -> impl Strategy<Value = Case> {
    (scn(3), 0u8..13, 0u8..5, any::<u64>()).prop_map(|(scn, kind, mag, sel)| Case { scn, kind, mag, sel })
}

/// the request must not be served: Err or abort
fn refused<T>(ctx: &mut CaseCtx, scheme: &str, entry: &str, what: &str, o: &Out<T>, detail: impl FnOnce() -> String) -> Result<(), Failure> {
    ctx.asserts += 1;
    if let Out::Ok(_) = o {
        ctx.fail(sig(P, scheme, entry, &format!("{what}_accepted")), format!("{entry} served an out-of-domain request ({what}): {}", detail()))
    } else {
        Ok(())
    }
}

/// an oversized / malformed polynomial for this scheme: (polynomial, description, strictly out of domain?)
pub trait Oversize: Scheme {
    fn oversize(info: &KeyInfo, mag: u8, seed: u64) -> Option<(Self::P, String)>;
    /// a point with the wrong number of coordinates (shorter, longer), for multivariate schemes
    /// (point, what, reading): `reading` = the full-length point the scheme's positional reading of the
    /// malformed point amounts to, where the scheme defines one (None = no defined reading)
    fn bad_points(_info: &KeyInfo, _z: &Self::Pt) -> Vec<(Self::Pt, &'static str, Option<Self::Pt>)> {
        vec![]
    }
    const HIDING_ZERO_REFUSED: bool = false;
    const HIDING_BEYOND_KEY_REFUSED: bool = false;
    const NEEDS_RNG_ALWAYS: bool = false;
    /// univariate schemes: a random polynomial of exactly this degree
    fn uni_poly_of(_deg: usize, _seed: u64) -> Option<Self::P> {
        None
    }
    /// `trim` refuses an enforced bound above the supported degree (SonicKZG10) / only above the maximum
    /// degree (MarlinKZG10, whose shifted powers reach up to max_degree); None = trim takes no bound list
    const TRIM_BOUND_LIMIT: Option<&'static str> = None;
}

fn uni_of<F: ark_ff::PrimeField, Pl: DenseUVPolynomial<F>>(deg: usize, seed: u64) -> Pl {
    let mut g = rng(seed);
    let mut c: Vec<F> = (0..=deg).map(|_| F::rand(&mut g)).collect();
    if c[deg].is_zero() {
        c[deg] = F::one();
    }
    crate::util::low_zeros(&mut c, seed);
    Pl::from_coefficients_vec(c)
}

fn uni_over<F: ark_ff::PrimeField, Pl: DenseUVPolynomial<F>>(info: &KeyInfo, mag: u8, seed: u64) -> Option<(Pl, String)> {
    let deg = match mag % 4 {
        0 => info.supported + 1,
        1 => info.max_degree + 1,
        2 => 2 * info.max_degree + 1,
        _ => info.supported + 2,
    };
    let mut g = rng(seed);
    let mut c: Vec<F> = (0..=deg).map(|_| F::rand(&mut g)).collect();
    if c[deg].is_zero() {
        c[deg] = F::one();
    }
    crate::util::low_zeros(&mut c, seed);
    Some((Pl::from_coefficients_vec(c), format!("degree {deg} with supported degree {} (max {})", info.supported, info.max_degree)))
}

impl Oversize for Marlin {
    fn oversize(info: &KeyInfo, mag: u8, seed: u64) -> Option<(UniPoly, String)> {
        uni_over::<Fr, UniPoly>(info, mag, seed)
    }
    fn uni_poly_of(deg: usize, seed: u64) -> Option<UniPoly> {
        Some(uni_of::<Fr, UniPoly>(deg, seed))
    }
    const TRIM_BOUND_LIMIT: Option<&'static str> = Some("max");
    const HIDING_ZERO_REFUSED: bool = true;
    const HIDING_BEYOND_KEY_REFUSED: bool = true;
}
impl Oversize for Sonic {
    fn oversize(info: &KeyInfo, mag: u8, seed: u64) -> Option<(UniPoly, String)> {
        uni_over::<Fr, UniPoly>(info, mag, seed)
    }
    fn uni_poly_of(deg: usize, seed: u64) -> Option<UniPoly> {
        Some(uni_of::<Fr, UniPoly>(deg, seed))
    }
    const TRIM_BOUND_LIMIT: Option<&'static str> = Some("supported");
    const HIDING_ZERO_REFUSED: bool = true;
    const HIDING_BEYOND_KEY_REFUSED: bool = true;
}
impl Oversize for Ipa {
    fn oversize(info: &KeyInfo, mag: u8, seed: u64) -> Option<(JUniPoly, String)> {
        let mut i2 = info.clone();
        i2.max_degree = (info.max_degree + 1).next_power_of_two() - 1;
        uni_over::<JFr, JUniPoly>(&i2, mag, seed)
    }
    fn uni_poly_of(deg: usize, seed: u64) -> Option<JUniPoly> {
        Some(uni_of::<JFr, JUniPoly>(deg, seed))
    }
}
impl Oversize for Pst13 {
    fn oversize(info: &KeyInfo, mag: u8, seed: u64) -> Option<(MVPoly, String)> {
        let n = info.num_vars;
        let d = info.supported + 1 + (mag as usize % 2) * (info.max_degree - info.supported);
        let mut g = rng(seed);
        // a monomial of total degree d, spread over the variables, plus lower terms
        let mut e = vec![0usize; n];
        for k in 0..d {
            e[k % n] += 1;
        }
        let terms = vec![(Fr::rand(&mut g) + Fr::one(), term_of(&e)), (Fr::rand(&mut g), SparseTerm::new(vec![]))];
        Some((MVPoly::from_coefficients_vec(n, terms), format!("total degree {d} with supported degree {}", info.supported)))
    }
    fn bad_points(info: &KeyInfo, z: &Vec<Fr>) -> Vec<(Vec<Fr>, &'static str, Option<Vec<Fr>>)> {
        let mut short = z.clone();
        short.pop();
        let _ = info;
        vec![(short, "point_too_short", None)]
    }
    const HIDING_ZERO_REFUSED: bool = true;
    const HIDING_BEYOND_KEY_REFUSED: bool = true;
}
/// `positional`: the linear-code verifiers turn the point into tensor vectors a, b and take inner products
/// that stop at the shorter operand, so a point that lacks its last coordinate is read as if that
/// coordinate were 0 (b covers the first half of the rows). The commitment does not record the number of
/// variables (a smaller polynomial may sit in a larger matrix), so the verifier cannot tell; what it
/// accepts under that reading must be the polynomial's value at the zero-padded point.
fn mle_points(z: &Vec<Fr>, positional: bool) -> Vec<(Vec<Fr>, &'static str, Option<Vec<Fr>>)> {
    let mut short = z.clone();
    short.pop();
    let mut long = z.clone();
    long.push(Fr::from(7u64));
    let mut padded = short.clone();
    padded.push(Fr::zero());
    // a surplus coordinate is NOT given a reading: the prover refuses such a point (the row vector no
    // longer fits the matrix) and the verifier can only be satisfied by the zero polynomial, whose inner
    // products all vanish - that one case is allowed for explicitly where the verdict is judged
    vec![(short, "point_too_short", if positional && !z.is_empty() { Some(padded) } else { None }), (long, "point_too_long", None)]
}
fn mle_over(nv: usize, seed: u64) -> MLE {
    let mut g = rng(seed);
    MLE::from_evaluations_vec(nv, (0..1usize << nv).map(|_| Fr::rand(&mut g)).collect())
}
impl Oversize for Hyrax {
    fn oversize(info: &KeyInfo, mag: u8, seed: u64) -> Option<(MLE, String)> {
        // more variables, fewer variables, an odd number of variables: all outside what the key serves
        let nv = match mag % 3 {
            0 => info.num_vars + 2,
            1 => info.num_vars + 1,
            _ => {
                if info.num_vars >= 2 {
                    info.num_vars - 2
                } else {
                    info.num_vars + 3
                }
            }
        };
        Some((mle_over(nv, seed), format!("{nv} variables with a key for {}", info.num_vars)))
    }
    fn bad_points(_info: &KeyInfo, z: &Vec<Fr>) -> Vec<(Vec<Fr>, &'static str, Option<Vec<Fr>>)> {
        if z.is_empty() {
            let mut long = z.clone();
            long.push(Fr::from(7u64));
            long.push(Fr::from(8u64));
            return vec![(long, "point_too_long", None)];
        }
        mle_points(z, false)
    }
    const NEEDS_RNG_ALWAYS: bool = true;
}
impl Oversize for MLigero {
    fn oversize(_info: &KeyInfo, _mag: u8, _seed: u64) -> Option<(MLE, String)> {
        None // Ligero parameters do not bound the polynomial size
    }
    fn bad_points(_info: &KeyInfo, z: &Vec<Fr>) -> Vec<(Vec<Fr>, &'static str, Option<Vec<Fr>>)> {
        mle_points(z, true)
    }
}
impl Oversize for ULigero {
    fn oversize(_info: &KeyInfo, _mag: u8, _seed: u64) -> Option<(UniPoly, String)> {
        None
    }
}
impl Oversize for Brakedown {
    fn oversize(info: &KeyInfo, mag: u8, seed: u64) -> Option<(MLE, String)> {
        let nv = info.num_vars + 1 + (mag as usize % 2);
        Some((mle_over(nv, seed), format!("{nv} variables with parameters for {}", info.num_vars)))
    }
    fn bad_points(_info: &KeyInfo, z: &Vec<Fr>) -> Vec<(Vec<Fr>, &'static str, Option<Vec<Fr>>)> {
        mle_points(z, true)
    }
}

pub fn check_trait<S: Oversize>(c: &Case, ctx: &mut CaseCtx) -> Result<(), Failure> {
    let tier = current_tier();
    let Ok(sess) = Session::<S>::build(&c.scn, tier) else {
        ctx.label("build_failed(C01)");
        return Ok(());
    };
    let keys = &sess.keys;
    let info = &keys.info;
    let sel = c.sel;
    ctx.nontrivial_if(c.mag % 4 == 0);
    ctx.derived = Some(json!({"scheme": S::NAME, "key": info.desc, "kind": c.kind, "magnitude": c.mag}));
    match c.kind {
        // ---- polynomial larger than the key supports ----------------------------------------
        0 | 1 => {
            let Some((big, what)) = S::oversize(info, c.mag, sel) else {
                ctx.label("no_size_limit");
                return Ok(());
            };
            ctx.label("oversized_polynomial");
            let lp = LabeledPolynomial::new("big".into(), big.clone(), None, None);
            let mut r = rng(sel);
            let o = guard(|| S::PC::commit(&keys.ck, [&lp], Some(&mut r)));
            refused(ctx, S::NAME, "commit", "oversized_polynomial", &o, || what.clone())?;
            // the prover must not serve it either, whatever commitment/state it is handed
            let mut r = rng(sel);
            let mut sp = sess.sponge();
            let o = guard(|| S::PC::open(&keys.ck, [&lp], [&sess.comms[0]], &sess.point_vals[0], &mut sp, [&sess.states[0]], Some(&mut r)));
            if let Out::Ok(pr) = o {
                // a proof came back: it must at least not prove anything about the oversized polynomial
                let honest_v = sess.true_value(0, &sess.point_vals[0]);
                let v = match guard_plain(|| big.evaluate(&sess.point_vals[0])) {
                    Out::Ok(v) => v,
                    _ => honest_v + delta::<S::F>(sel),
                };
                if v != honest_v {
                    let r = sess.check_idx(&[0], &sess.point_vals[0], vec![v], &pr, &mut sess.sponge(), sel);
                    ctx.check(!accepted(&r), sig(P, S::NAME, "open", "oversized_polynomial_proved"), || format!("{what}: open returned a proof that verifies against another polynomial's commitment"))?;
                }
                ctx.label("open_served_oversized(not_verifying)");
            }
            Ok(())
        }
        // ---- hiding bound zero / beyond the key / without RNG --------------------------------
        2 | 3 => {
            let p = sess.polys[0].polynomial().clone();
            let b = sess.meta[0].bound;
            if S::HIDING_ZERO_REFUSED {
                ctx.label("hiding_bound_zero");
                let lp = LabeledPolynomial::new("h0".into(), p.clone(), b, Some(0));
                let mut r = rng(sel);
                let o = guard(|| S::PC::commit(&keys.ck, [&lp], Some(&mut r)));
                refused(ctx, S::NAME, "commit", "hiding_bound_zero", &o, || "hiding_bound = Some(0)".into())?;
            }
            if S::HIDING_BEYOND_KEY_REFUSED {
                ctx.label("hiding_bound_beyond_key");
                let h = info.hiding + 1 + (c.mag as usize % 3) * info.max_degree.max(1);
                let lp = LabeledPolynomial::new("hb".into(), p.clone(), b, Some(h));
                let mut r = rng(sel);
                let o = guard(|| S::PC::commit(&keys.ck, [&lp], Some(&mut r)));
                refused(ctx, S::NAME, "commit", "hiding_bound_beyond_key", &o, || format!("hiding bound {h} with supported hiding bound {}", info.hiding))?;
            }
            if S::HAS_HIDING && info.hiding >= 1 || S::NEEDS_RNG_ALWAYS {
                ctx.label("hiding_without_rng");
                let h = if S::HAS_HIDING { Some(1) } else { None };
                let lp = LabeledPolynomial::new("nr".into(), p.clone(), b, h);
                let o = guard(|| S::PC::commit(&keys.ck, [&lp], None));
                refused(ctx, S::NAME, "commit", "hiding_without_rng", &o, || "rng = None".into())?;
            }
            Ok(())
        }
        // ---- points with the wrong number of coordinates ------------------------------------
        4 | 5 => {
            let z = sess.point_vals[0].clone();
            for (bad, what, reading) in S::bad_points(info, &z) {
                let at = reading.clone().unwrap_or_else(|| bad.clone());
                ctx.label_if(reading.is_some(), "positional_reading_defined");
                ctx.label(what);
                let mut sp = sess.sponge();
                let mut r = rng(sel);
                let o = guard(|| S::PC::open(&keys.ck, [&sess.polys[0]], [&sess.comms[0]], &bad, &mut sp, [&sess.states[0]], Some(&mut r)));
                match o {
                    Out::Ok(pr) => {
                        // served: then it has to be right - no value other than a consistent one may verify
                        let v = sess.true_value(0, &z) + delta::<S::F>(sel);
                        let mut sp = sess.sponge();
                        let mut r = rng(sel);
                        let rc = guard(|| S::PC::check(&keys.vk, [&sess.comms[0]], &bad, [v], &pr, &mut sp, Some(&mut r)));
                        let v2 = guard_plain(|| sess.polys[0].polynomial().evaluate(&at));
                        let consistent = matches!(v2, Out::Ok(x) if x == v);
                        ctx.check(!accepted(&rc) || consistent, sig(P, S::NAME, "check", &format!("{what}_wrong_value_accepted")), || format!("{what}: a value the polynomial does not take was accepted"))?;
                        // the proof the prover made *for the malformed point* must not establish the value at the
                        // well-formed point either, unless the scheme defines a reading under which that is true
                        let vz = sess.true_value(0, &z);
                        let mut sp = sess.sponge();
                        let mut r = rng(sel);
                        let rz = guard(|| S::PC::check(&keys.vk, [&sess.comms[0]], &bad, [vz], &pr, &mut sp, Some(&mut r)));
                        let vr = guard_plain(|| sess.polys[0].polynomial().evaluate(&at));
                        let fine = matches!(vr, Out::Ok(x) if x == vz) && reading.is_some() || (what == "point_too_long" && vz.is_zero());
                        ctx.check(!accepted(&rz) || fine, sig(P, S::NAME, "check", &format!("{what}_accepted")), || format!("{what}: a proof made for the malformed point verifies there for the polynomial's value at the well-formed point"))?;
                        ctx.label("served_but_sound");
                    }
                    _ => {
                        ctx.asserts += 1;
                    }
                }
                // the verifier with an honest proof for the right point
                if let Out::Ok(pr) = sess.open_idx(&[0], &z, &mut sess.sponge(), sel) {
                    let v = sess.true_value(0, &z);
                    let mut sp = sess.sponge();
                    let mut r = rng(sel);
                    let rc = guard(|| S::PC::check(&keys.vk, [&sess.comms[0]], &bad, [v], &pr, &mut sp, Some(&mut r)));
                    let v2 = guard_plain(|| sess.polys[0].polynomial().evaluate(&at));
                    // a longer point read positionally is the point of the table padded with zeros: the value
                    // there is p(z) * prod(1 - surplus coordinate), and the surplus coordinates used here (7, 8)
                    // make that equal to the claimed p(z) only when p(z) = 0
                    let zero_poly = what == "point_too_long" && v.is_zero();
                    let consistent = matches!(v2, Out::Ok(x) if x == v) || zero_poly;
                    ctx.label_if(accepted(&rc) && consistent, "accepted_value_of_the_positional_reading");
                    ctx.label_if(accepted(&rc) && zero_poly, "zero_value_verifies_at_a_longer_point");
                    ctx.check(!accepted(&rc) || consistent, sig(P, S::NAME, "check", &format!("{what}_accepted")), || format!("{what}: verifier accepted a point of the wrong length"))?;
                }
            }
            Ok(())
        }
        // ---- label / query bookkeeping ---------------------------------------------------------
        6 => {
            ctx.label("query_for_unknown_polynomial");
            let mut qs = sess.query_set();
            qs.insert(("no_such_polynomial".to_string(), (sess.groups[0].label.clone(), sess.groups[0].point.clone())));
            let o = sess.batch_open(&qs, &mut sess.sponge(), sel);
            refused(ctx, S::NAME, "batch_open", "unknown_polynomial", &o, || "query set names a polynomial that was not supplied".into())?;
            // verifier side: honest proof, but a commitment is missing from the list
            let qs = sess.query_set();
            if let Out::Ok(bp) = sess.batch_open(&qs, &mut sess.sponge(), sel) {
                let queried = sess.groups[0].polys[0];
                let comms: Vec<&LabeledCommitment<Comm<S>>> = (0..sess.n()).filter(|i| *i != queried).map(|i| &sess.comms[i]).collect();
                let o = sess.batch_check(comms, &qs, &sess.evaluations(), &bp, &mut sess.sponge(), sel);
                ctx.check(!accepted(&o), sig(P, S::NAME, "batch_check", "missing_commitment_accepted"), || o.describe())?;
            }
            Ok(())
        }
        7 => {
            ctx.label("missing_evaluation");
            let qs = sess.query_set();
            if let Out::Ok(bp) = sess.batch_open(&qs, &mut sess.sponge(), sel) {
                let mut ev = sess.evaluations();
                let k = ev.keys().nth((sel % ev.len() as u64) as usize).cloned().unwrap();
                ev.remove(&k);
                let o = sess.batch_check(sess.verifier_comms(), &qs, &ev, &bp, &mut sess.sponge(), sel);
                ctx.check(!accepted(&o), sig(P, S::NAME, "batch_check", "missing_evaluation_accepted"), || o.describe())?;
            }
            // the same for combination openings: one single-term combination per unbounded polynomial, queried
            // where the polynomial is queried; one claimed combination value is withheld from the verifier
            {
                use ark_poly_commit::{LCTerm, LinearCombination};
                let free: Vec<usize> = (0..sess.n()).filter(|i| sess.meta[*i].bound.is_none()).collect();
                let mut lcs = Vec::new();
                for i in &free {
                    lcs.push(LinearCombination::new(format!("lc{i}"), vec![(S::F::from(2u64), LCTerm::PolyLabel(sess.polys[*i].label().clone()))]));
                }
                let mut lqs = std::collections::BTreeSet::new();
                let mut lev = std::collections::BTreeMap::new();
                for g in &sess.groups {
                    for i in g.polys.iter().filter(|i| free.contains(i)) {
                        lqs.insert((format!("lc{i}"), (g.label.clone(), g.point.clone())));
                        lev.insert((format!("lc{i}"), g.point.clone()), S::F::from(2u64) * sess.true_value(*i, &g.point));
                    }
                }
                if !lqs.is_empty() {
                    let ps: Vec<_> = sess.perm_p.iter().map(|i| &sess.polys[*i]).collect();
                    let cs: Vec<_> = sess.perm_p.iter().map(|i| &sess.comms[*i]).collect();
                    let ss: Vec<_> = sess.perm_p.iter().map(|i| &sess.states[*i]).collect();
                    let mut r = rng(sel);
                    let mut sp = sess.sponge();
                    if let Out::Ok(lp) = guard(|| S::PC::open_combinations(&keys.ck, &lcs, ps, cs, &lqs, &mut sp, ss, Some(&mut r))) {
                        let mut r2 = rng(sel ^ 9);
                        let honest = guard(|| S::PC::check_combinations(&keys.vk, &lcs, sess.verifier_comms(), &lqs, &lev, &lp, &mut sess.sponge(), &mut r2));
                        if accepted(&honest) {
                            let k = lev.keys().nth(((sel >> 8) % lev.len() as u64) as usize).cloned().unwrap();
                            let mut lev2 = lev.clone();
                            lev2.remove(&k);
                            ctx.label("missing_combination_evaluation");
                            let mut r3 = rng(sel ^ 9);
                            let o = guard(|| S::PC::check_combinations(&keys.vk, &lcs, sess.verifier_comms(), &lqs, &lev2, &lp, &mut sess.sponge(), &mut r3));
                            ctx.check(!accepted(&o), sig(P, S::NAME, "check_combinations", "missing_evaluation_accepted"), || format!("the claimed value of {} was withheld: {}", k.0, o.describe()))?;
                        }
                    }
                }
            }
            Ok(())
        }
        8 => {
            // mismatched labels between polynomial and commitment: refused, or served with a proof that is right
            ctx.label("mismatched_labels");
            let z = sess.point_vals[0].clone();
            let relabelled = LabeledCommitment::new("someone_else".to_string(), sess.comms[0].commitment().clone(), sess.comms[0].degree_bound());
            let mut sp = sess.sponge();
            let mut r = rng(sel);
            let o = guard(|| S::PC::open(&keys.ck, [&sess.polys[0]], [&relabelled], &z, &mut sp, [&sess.states[0]], Some(&mut r)));
            if let Out::Ok(pr) = o {
                let bad = sess.true_value(0, &z) + delta::<S::F>(sel);
                let rc = sess.check_idx(&[0], &z, vec![bad], &pr, &mut sess.sponge(), sel);
                ctx.check(!accepted(&rc), sig(P, S::NAME, "open", "mismatched_labels_wrong_value_accepted"), || "proof from a mislabelled open proves a false value".into())?;
                ctx.label("served_but_sound");
            }
            ctx.asserts += 1;
            Ok(())
        }
        // ---- trim beyond the parameters ---------------------------------------------------------
        9 => {
            if matches!(S::NAME, "marlin" | "sonic" | "ipa" | "pst13") {
                ctx.label("trim_beyond_parameters");
                let over = info.max_degree.max(1) * (1 + c.mag as usize % 3) + 1 + if S::NAME == "ipa" { info.max_degree + 2 } else { 0 };
                let o = guard(|| S::PC::trim(&keys.pp, over, 0, None));
                refused(ctx, S::NAME, "trim", "supported_degree_beyond_parameters", &o, || format!("supported_degree {over} with max_degree {}", info.max_degree))?;
            }
            Ok(())
        }
        // ---- unsupported / inconsistent degree bound handed to the committer -------------------------
        10 => {
            if !S::HAS_BOUNDS {
                return Ok(());
            }
            let sup = info.supported;
            let enforced: Vec<usize> = if info.any_bound { (1..=sup).collect() } else { info.enforced.clone().unwrap_or_default() };
            let not_enforced: Vec<usize> = (1..=sup).filter(|d| !enforced.contains(d)).collect();
            // (bound, degree, what)
            let req: Option<(usize, usize, &str)> = match c.mag % 5 {
                0 => Some((sup + 1, pick(sel as u16, sup + 1), "degree_bound_beyond_supported")),
                1 if !not_enforced.is_empty() => {
                    let b = not_enforced[pick(sel as u16, not_enforced.len())];
                    Some((b, pick((sel >> 16) as u16, b + 1), "degree_bound_not_enforced"))
                }
                2 => enforced.iter().cloned().filter(|b| *b < sup).nth(0).map(|b| (b, b + 1, "degree_above_its_bound")),
                3 => Some((info.max_degree + 1 + pick(sel as u16, 3), pick((sel >> 16) as u16, sup + 1), "degree_bound_beyond_max")),
                _ if !enforced.is_empty() => {
                    let b = enforced[pick(sel as u16, enforced.len())];
                    if b < sup { Some((b, sup, "degree_above_its_bound")) } else { None }
                }
                _ => None,
            };
            let Some((b, deg, what)) = req else {
                ctx.label("no_such_bound_request_for_this_key");
                return Ok(());
            };
            // IPA admits every bound in 1..=supported and rounds its supported degree up to 2^k - 1
            if info.any_bound && b <= sup && deg <= b {
                return Ok(());
            }
            ctx.label(what);
            let Some(p) = S::uni_poly_of(deg, sel) else { return Ok(()) };
            let lp = LabeledPolynomial::new("b".into(), p, Some(b), None);
            let mut r = rng(sel);
            let o = guard(|| S::PC::commit(&keys.ck, [&lp], Some(&mut r)));
            refused(ctx, S::NAME, "commit", what, &o, || format!("degree {deg} under bound {b}; supported {sup}, max {}, enforced {:?}", info.max_degree, enforced))
        }
        // ---- a commitment presented to the verifier under a degree bound the key was not trimmed for -----
        12 => {
            if !S::HAS_BOUNDS {
                return Ok(());
            }
            let enforced: Vec<usize> = if info.any_bound { (1..=info.supported).collect() } else { info.enforced.clone().unwrap_or_default() };
            if enforced.is_empty() {
                return Ok(());
            }
            let top = *enforced.last().unwrap();
            // made under any enforced bound, or (half of the cases of a scheme that enforces every bound)
            // under the largest one, where a verifier that clamps an oversized bound would not notice
            let d1 = if info.any_bound && c.mag % 2 == 0 { top } else { enforced[pick(sel as u16, enforced.len())] };
            let mut foreign: Vec<usize> = (if info.any_bound { 1 } else { 0 }..=top + 2).filter(|b| !enforced.contains(b)).collect();
            foreign.extend([info.supported + 1, info.supported + 9, 2 * info.supported + 1, usize::MAX].iter().filter(|b| !enforced.contains(b)));
            if foreign.is_empty() {
                return Ok(());
            }
            // prefer a bound just below the committed one (a verifier that rounds up would take it)
            let below: Vec<usize> = foreign.iter().cloned().filter(|b| *b < d1).collect();
            let d = if !below.is_empty() && c.mag % 3 != 0 { below[pick((sel >> 16) as u16, below.len())] } else { foreign[pick((sel >> 16) as u16, foreign.len())] };
            let deg = pick((sel >> 32) as u16, d1 + 1);
            let Some(p) = S::uni_poly_of(deg, sel) else { return Ok(()) };
            let lp = LabeledPolynomial::new("b".into(), p.clone(), Some(d1), None);
            let mut r = rng(sel);
            let Out::Ok((cm, st)) = guard(|| S::PC::commit(&keys.ck, [&lp], Some(&mut r))) else { return Ok(()) };
            let z = sess.point_vals[0].clone();
            let mut sp = sess.sponge();
            let Out::Ok(pr) = guard(|| S::PC::open(&keys.ck, [&lp], &cm, &z, &mut sp, &st, None)) else { return Ok(()) };
            let v = p.evaluate(&z);
            let honest = guard(|| S::PC::check(&keys.vk, &cm, &z, [v], &pr, &mut sess.sponge(), None));
            if !accepted(&honest) {
                return Ok(());
            }
            ctx.label("unsupported_degree_bound_presented_to_the_verifier");
            ctx.label_if(d < d1, "presented_bound_just_below_an_enforced_one");
            let relabelled = LabeledCommitment::new("b".to_string(), cm[0].commitment().clone(), Some(d));
            let o = guard(|| S::PC::check(&keys.vk, [&relabelled], &z, [v], &pr, &mut sess.sponge(), None));
            ctx.asserts += 1;
            ctx.check(!accepted(&o), sig(P, S::NAME, "check", "unsupported_degree_bound_accepted"), || {
                format!("commitment made under bound {d1} presented under bound {d} (enforced {enforced:?}): {}", o.describe())
            })?;
            let mut qs = std::collections::BTreeSet::new();
            qs.insert(("b".to_string(), ("z".to_string(), z.clone())));
            let mut ev = std::collections::BTreeMap::new();
            ev.insert(("b".to_string(), z.clone()), v);
            let bp: BatchProof<S> = vec![pr.clone()].into();
            let mut r2 = rng(sel ^ 1);
            let o = guard(|| S::PC::batch_check(&keys.vk, [&relabelled], &qs, &ev, &bp, &mut sess.sponge(), &mut r2));
            ctx.check(!accepted(&o), sig(P, S::NAME, "batch_check", "unsupported_degree_bound_accepted"), || {
                format!("commitment made under bound {d1} presented under bound {d} (enforced {enforced:?}): {}", o.describe())
            })
        }
        // ---- key requested with an enforced bound the parameters / supported degree do not cover -------
        11 => {
            let Some(limit) = S::TRIM_BOUND_LIMIT else { return Ok(()) };
            let (sup, max) = (info.supported, info.max_degree);
            let lim = if limit == "supported" { sup } else { max };
            let d = match c.mag % 3 {
                0 => lim + 1,
                1 if limit == "supported" && max > sup => sup + 1 + pick(sel as u16, max - sup),
                _ => lim + 1 + pick(sel as u16, 4),
            };
            let mut req = info.requested_bounds.clone().unwrap_or_default();
            let at = pick((sel >> 16) as u16, req.len() + 1);
            req.insert(at, d);
            if c.mag >= 3 {
                // the offending bound twice, the second time in front
                req.insert(0, d);
            }
            ctx.label("trim_with_unsupported_degree_bound");
            ctx.label_if(at + 1 < req.len(), "offending_bound_not_last_in_list");
            ctx.derived = Some(json!({"scheme": S::NAME, "key": info.desc, "requested_bounds": req, "offending_bound": d, "limit": limit}));
            let o = guard(|| S::PC::trim(&keys.pp, sup, info.hiding, Some(&req)));
            refused(ctx, S::NAME, "trim", "unsupported_degree_bound", &o, || format!("bounds {req:?} with supported degree {sup} and max degree {max} (bounds above the {limit} degree are refused)"))?;
            // MarlinKZG10 serves bounds in (supported, max]; the committer must still refuse a polynomial above the supported degree
            if limit == "max" && max > sup {
                let d2 = sup + 1 + pick(sel as u16, max - sup);
                let mut req2 = info.requested_bounds.clone().unwrap_or_default();
                req2.insert(pick((sel >> 16) as u16, req2.len() + 1), d2);
                if let Out::Ok((ck2, _)) = guard(|| S::PC::trim(&keys.pp, sup, info.hiding, Some(&req2))) {
                    ctx.label("bound_in_(supported,max]_served");
                    let deg = sup + 1 + pick((sel >> 32) as u16, d2 - sup);
                    if let Some(p) = S::uni_poly_of(deg, sel) {
                        let lp = LabeledPolynomial::new("b".into(), p, Some(d2), None);
                        let mut r = rng(sel);
                        let o = guard(|| S::PC::commit(&ck2, [&lp], Some(&mut r)));
                        refused(ctx, S::NAME, "commit", "oversized_polynomial_under_large_bound", &o, || format!("degree {deg} under bound {d2}, supported {sup}"))?;
                    }
                }
            }
            Ok(())
        }
        _ => Ok(()),
    }
}

// ------------------------------------------------------------------------------------------------
// setup with degenerate sizes; inherent-API schemes
// ------------------------------------------------------------------------------------------------

#[derive(Clone, Debug, Serialize, Deserialize)]
pub struct SetupCase {
    pub which: u8,
    pub a: u16,
    pub seed: u64,
}

fn check_setup(c: &SetupCase, ctx: &mut CaseCtx) -> Result<(), Failure> {
    ctx.nontrivial = true;
    let s = c.seed;
    let nv = 1 + pick(c.a, 6);
    match c.which % 12 {
        0 => refused(ctx, "kzg10", "setup", "degree_zero", &guard(|| Kzg::setup(0, c.a % 2 == 0, &mut rng(s))), || "max_degree 0".into()),
        1 => refused(ctx, "marlin", "setup", "degree_zero", &guard(|| MarlinPC::setup(0, None, &mut rng(s))), || "max_degree 0".into()),
        2 => refused(ctx, "sonic", "setup", "degree_zero", &guard(|| SonicPC::setup(0, None, &mut rng(s))), || "max_degree 0".into()),
        3 => refused(ctx, "pst13", "setup", "degree_zero", &guard(|| Pst13PC::setup(0, Some(nv), &mut rng(s))), || "max_degree 0".into()),
        4 => refused(ctx, "pst13", "setup", "zero_variables", &guard(|| Pst13PC::setup(nv, Some(0), &mut rng(s))), || "num_vars 0".into()),
        5 => refused(ctx, "pst13", "setup", "missing_variables", &guard(|| Pst13PC::setup(nv, None, &mut rng(s))), || "num_vars None".into()),
        6 => refused(ctx, "hyrax", "setup", "missing_variables", &guard(|| HyraxPCT::setup(1, None, &mut rng(s))), || "num_vars None".into()),
        7 => refused(ctx, "hyrax", "setup", "odd_variables", &guard(|| HyraxPCT::setup(1, Some(2 * nv + 1), &mut rng(s))), || "odd num_vars".into()),
        8 => refused(ctx, "mlpst", "setup", "zero_variables", &guard_plain(|| MlPst::setup(0, &mut rng(s))), || "num_vars 0".into()),
        9 => refused(ctx, "brakedown", "setup", "missing_variables", &guard(|| BrakedownPC::setup(1, None, &mut rng(s))), || "num_vars None".into()),
        10 => {
            // KZG10 directly: oversized polynomial, hiding 0, hiding beyond key, hiding without rng
            let Ok(keys) = kzg_keys(c.a, (s % 65536) as u16, (s >> 16) as u8, (s % 4) as u8) else { return Ok(()) };
            let deg = keys.supported + 1 + (s as usize % 3);
            let mut bigc: Vec<Fr> = (0..=deg).map(|i| Fr::from(i as u64 + 1)).collect();
            crate::util::low_zeros(&mut bigc, s);
            let big = UniPoly::from_coefficients_vec(bigc);
            refused(ctx, "kzg10", "commit", "oversized_polynomial", &guard(|| Kzg::commit(&keys.powers(), &big, None, None)), || format!("degree {deg}, supported {}", keys.supported))?;
            let p = UniPoly::from_coefficients_vec(vec![Fr::from(3u64), Fr::from(4u64)]);
            let mut r = rng(s);
            refused(ctx, "kzg10", "commit", "hiding_bound_zero", &guard(|| Kzg::commit(&keys.powers(), &p, Some(0), Some(&mut r))), || "Some(0)".into())?;
            let h = keys.hiding + 1 + (s as usize % 4);
            refused(ctx, "kzg10", "commit", "hiding_bound_beyond_key", &guard(|| Kzg::commit(&keys.powers(), &p, Some(h), Some(&mut r))), || format!("hiding {h}, key supports {}", keys.hiding))?;
            if keys.hiding >= 1 {
                refused(ctx, "kzg10", "commit", "hiding_without_rng", &guard(|| Kzg::commit(&keys.powers(), &p, Some(1), None)), || "rng None".into())?;
            }
            // opening a polynomial larger than the key
            let rand = ark_poly_commit::kzg10::Randomness::<Fr, UniPoly>::empty();
            refused(ctx, "kzg10", "open", "oversized_polynomial", &guard(|| Kzg::open(&keys.powers(), &big, Fr::from(2u64), &rand)), || format!("degree {deg}"))
        }
        _ => {
            // multilinear PST: polynomial with more variables than the key, trim beyond the parameters, wrong point length
            let Ok((pp, ck, vk, nv_max, nvk)) = ml_keys(c.a, (s % 65536) as u16, (s % 3) as u8) else { return Ok(()) };
            let big = mle_over(nvk + 1 + (s as usize % 2), s);
            refused(ctx, "mlpst", "commit", "oversized_polynomial", &guard_plain(|| MlPst::commit(&ck, &big)), || format!("{} variables, key {nvk}", big.num_vars))?;
            refused(ctx, "mlpst", "open", "oversized_polynomial", &guard_plain(|| MlPst::open(&ck, &big, &vec![Fr::one(); big.num_vars])), || "open".into())?;
            refused(ctx, "mlpst", "trim", "too_many_variables", &guard_plain(|| MlPst::trim(&pp, nv_max + 1 + (s as usize % 3))), || "trim".into())?;
            // the prover refuses a polynomial with fewer variables than the key (its quotient bases are
            // laid out for exactly the key's number of variables); the committer defines that case, so
            // only `open` is asserted - with a point of the polynomial's length and of the key's length
            if nvk >= 2 {
                let few = nvk - 1 - (s as usize % 2).min(nvk - 2);
                let small = mle_over(few, s ^ 2);
                ctx.label("open_with_fewer_variables_than_the_key");
                refused(ctx, "mlpst", "open", "too_few_variables", &guard_plain(|| MlPst::open(&ck, &small, &vec![Fr::from(3u64); few])), || format!("{few} variables under a key for {nvk}"))?;
                refused(ctx, "mlpst", "open", "too_few_variables_long_point", &guard_plain(|| MlPst::open(&ck, &small, &vec![Fr::from(3u64); nvk])), || format!("{few} variables under a key for {nvk}, point of length {nvk}"))?;
            }
            let p = mle_over(nvk, s ^ 1);
            let z: Vec<Fr> = (0..nvk).map(|i| Fr::from(i as u64 + 2)).collect();
            // points of the wrong length handed to the prover
            let mut zs = z.clone();
            zs.pop();
            let mut zl = z.clone();
            zl.push(Fr::from(9u64));
            for (bad, what) in [(zs, "point_too_short"), (zl, "point_too_long")] {
                if let Out::Ok(pr) = guard_plain(|| MlPst::open(&ck, &p, &bad)) {
                    // served: nothing false may verify with it
                    if let Out::Ok(cm) = guard_plain(|| MlPst::commit(&ck, &p)) {
                        let r = guard_plain(|| MlPst::check(&vk, &cm, &z, p.evaluate(&z) + Fr::one(), &pr));
                        ctx.check(!accepted(&r), sig(P, "mlpst", "open", &format!("{what}_proves_false_value")), || r.describe())?;
                    }
                    ctx.label("served_but_sound");
                }
            }
            let (Out::Ok(cm), Out::Ok(pr)) = (guard_plain(|| MlPst::commit(&ck, &p)), guard_plain(|| MlPst::open(&ck, &p, &z))) else { return Ok(()) };
            let mut short = z.clone();
            short.pop();
            let v = p.evaluate(&z);
            let r = guard_plain(|| MlPst::check(&vk, &cm, &short, v, &pr));
            ctx.check(!accepted(&r), sig(P, "mlpst", "check", "point_too_short_accepted"), || r.describe())
        }
    }
}

use ark_poly_commit::PCCommitmentState;

pub fn spec() -> PropertySpec {
    let budget = |name: &str| -> (u32, u32, usize) {
        match name {
            "brakedown" | "mligero" => (300, 3000, 4),
            "marlin" | "sonic" | "ipa" => (720, 7200, 4),
            _ => (480, 4800, 4),
        }
    };
    let mut units: Vec<Box<dyn Unit>> = Vec::new();
    macro_rules! add {
        ($s:ty) => {{
            let (q, t, sh) = budget(<$s as Scheme>::NAME);
            units.push(PropUnit::new(
                format!("C17:{}:out-of-domain", <$s as Scheme>::NAME),
                q,
                t,
                sh,
                |_| case().boxed(),
                |c: &Case, ctx: &mut CaseCtx| check_trait::<$s>(c, ctx),
            ));
        }};
    }
    add!(Marlin);
    add!(Sonic);
    add!(Ipa);
    add!(Pst13);
    add!(Hyrax);
    add!(ULigero);
    add!(MLigero);
    add!(Brakedown);
    // Equations outside a scheme's domain: a degree-bounded polynomial with a coefficient other than one,
    // or next to another polynomial or a constant (C06's policy group: the prover must refuse, and the
    // verifier may not answer positively - not with an empty proof, not with a proof over unbounded
    // twins, not with the proof of the admissible [1*p_b] and the value moved by the constant).
    macro_rules! policy {
        ($s:ty) => {
            units.push(PropUnit::new(
                format!("C17:{}:refused-equations", <$s as Scheme>::NAME),
                120,
                1200,
                4,
                |_| super::c06::case().prop_map(|mut c| { c.mode = 5; c }).boxed(),
                |c: &super::c06::Case, ctx: &mut CaseCtx| {
                    let mut inner = CaseCtx::new_like(ctx);
                    let r = super::c06::check_trait::<$s>(c, &mut inner);
                    ctx.absorb(inner);
                    match r {
                        Err(f) => ctx.fail(f.sig.replacen("C06:", "C17:", 1), f.msg),
                        Ok(()) => Ok(()),
                    }
                },
            ));
        };
    }
    policy!(Marlin);
    policy!(Sonic);
    policy!(Ipa);
    units.push(PropUnit::new(
        "C17:setup+inherent:out-of-domain",
        600,
        6000,
        2,
        |_| (any::<u8>(), any::<u16>(), any::<u64>()).prop_map(|(which, a, seed)| SetupCase { which, a, seed }).boxed(),
        check_setup,
    ));
    PropertySpec {
        id: "C17",
        rule: "Request kinds x magnitudes around the boundary (supported+1, max+1, 2max+1, supported+2; key variables +1/+2/-2; hiding 0 and beyond the supported hiding bound) inside otherwise valid generated scenarios: a polynomial larger than the key (degree / total degree / number of variables) handed to commit and to open; hiding bound 0, hiding bound beyond the key, hiding without an RNG; points with too few / too many coordinates handed to open and to check; a query for a polynomial that was not supplied, a commitment or an evaluation missing on the verifier side (batch_check, and check_combinations with a withheld combination value; a queried combination the verifier was not given is skipped by the default implementation - the crate's own equation tests rely on that - and is not asserted); mismatched labels between polynomial and commitment; trim beyond the parameters; a commitment presented to check / batch_check under a degree bound outside the enforced set (preferably just below the bound it was made for); an unsupported or inconsistent degree bound handed to commit (beyond supported / beyond max / not enforced / below the polynomial's degree) and to trim (an enforced-bound list containing, at any position and possibly twice, a bound above the supported degree for SonicKZG10 / above the maximum degree for MarlinKZG10, which by design serves bounds up to max_degree - there the committer must still refuse degrees above the supported degree); setup with degree 0, zero / missing / odd variables; the same for KZG10 and multilinear PST through their inherent APIs. Equations a scheme declares outside its domain (Marlin, Sonic, IPA: a degree-bounded polynomial with a coefficient other than one, or next to another polynomial or a constant term) are refused by open_combinations and never answered positively by check_combinations (C06's policy group under this property's id: empty proof, proof over unbounded twins, proof of the admissible [1*p_b] with the value moved by the constant). Oracle: the entry point returns Err or aborts - never a commitment, proof or Ok(true). Where a scheme defines the request instead of refusing it (a longer point whose extra coordinates are ignored, an open that does not look at labels) the check demands that whatever is served is sound: no value the polynomial does not take verifies. In-domain requests never aborting is C01's oracle. Non-trivial: magnitude exactly one past the boundary.",
        assumptions: vec![
            "IPA treats any hiding bound (including 0) as 'hiding' and Ligero parameters do not bound the polynomial size: not out of domain for those schemes",
            "multilinear Ligero / Brakedown verifiers read a point positionally (tensor vectors, inner products that stop at the shorter operand) and the commitment does not record the number of variables: a point lacking its last coordinate is read as if that coordinate were 0, accepting the polynomial's value at the zero-padded point is treated as scheme-defined, any other accepted value is a violation; a point with surplus coordinates (7, 8) is refused by the prover; read positionally it is a point of the evaluation table padded with zeros, where the value is p(z) * (1-7)(1-8) - so the claimed p(z) may verify there only when p(z) = 0 (the zero polynomial in particular), and any other accepted value is a violation",
            "PST13 / multilinear PST *commit* with fewer variables than the key is scheme-defined and not asserted; multilinear PST *open* refuses such a polynomial on this tree and is asserted to",
            "schemes without degree-bound or hiding support (PST13: bounds; Hyrax: both fields; Ligero/Brakedown: both, documented as 'does not support hiding') ignore those LabeledPolynomial fields, and the repository's own test templates pass hiding bounds to them: treated as defined behaviour, not as an out-of-domain request",
        ],
        units,
        watchdog_s: (1800, 7200),
    }
}

#[allow(dead_code)]
fn _t(_: MVPoly) -> bool {
    SparseTerm::new(vec![]).is_constant() && <MVPoly as DenseMVPolynomial<Fr>>::num_vars(&MVPoly::from_coefficients_vec(1, vec![])) == 1
}
