//! C02 — evaluation binding: a false claim with an honest proof is never accepted.

use super::c01::{
    distinct_points, kzg_case, kzg_hiding, kzg_keys, ml_case, ml_keys, sk_case, sk_keys, sk_poly,
    KzgCase, MlCase, SkCase, SK_BUFS,
};
use super::common::*;
use crate::engine::{CaseCtx, Failure, PropUnit, PropertySpec, Unit};
use crate::model::Scn;
use crate::schemes::*;
use crate::session::Session;
use crate::types::*;
use crate::util::{accepted, guard, guard_plain, pick, rng, FRaw, Out};
use ark_ff::{Field, One, UniformRand, Zero};
use ark_poly::{DenseUVPolynomial, Polynomial};
use ark_poly_commit::streaming_kzg::{CommitterKeyStream, VerifierKey};
use ark_poly_commit::{LabeledCommitment, LabeledPolynomial, PolynomialCommitment};
use proptest::prelude::*;
use rand_core::RngCore;
use serde_json::json;

const P: &str = "C02";

pub fn expect_reject(
    ctx: &mut CaseCtx,
    prop: &str,
    scheme: &str,
    entry: &str,
    kind: &str,
    o: &Out<bool>,
    detail: impl FnOnce() -> String,
) -> Result<(), Failure> {
    ctx.asserts += 1;
    if accepted(o) {
        ctx.fail(
            sig(prop, scheme, entry, &format!("{kind}_accepted")),
            format!("{entry} accepted a false claim ({kind}): {}", detail()),
        )
    } else {
        Ok(())
    }
}

/// A false value for a claim whose true value is `truth`: the truth shifted by 1, -1 or a random
/// element, zero, the negated or doubled truth, or one of the `pool` values (values that are true for
/// *other* claims of the same transcript - another polynomial at this point, this polynomial at another
/// point - or that differ from the truth by a quantity of the statement such as an LC constant).
pub fn false_value<F: Field + UniformRand>(truth: F, pool: &[F], seed: u64) -> (F, &'static str) {
    let cands: Vec<F> = pool.iter().cloned().filter(|x| *x != truth).collect();
    let k = seed % 8;
    let alt = match k {
        3 if !truth.is_zero() => Some((F::zero(), "value := 0")),
        4 if !truth.is_zero() && -truth != truth => Some((-truth, "value := -value")),
        5 | 6 if !cands.is_empty() => Some((cands[((seed >> 8) % cands.len() as u64) as usize], "value := a value true elsewhere in the statement")),
        7 if !truth.is_zero() && truth.double() != truth => Some((truth.double(), "value := 2*value")),
        _ => None,
    };
    alt.unwrap_or_else(|| (truth + delta::<F>(seed >> 3), "value += delta"))
}

/// non-zero delta from a seed: 1, -1 or random
pub fn delta<F: Field + UniformRand>(seed: u64) -> F {
    match seed % 3 {
        0 => F::one(),
        1 => -F::one(),
        _ => {
            let mut g = rng(seed);
            loop {
                let x = F::rand(&mut g);
                if !x.is_zero() {
                    break x;
                }
            }
        }
    }
}

/// A point z' such that at least one of the claims `p_i(z') = v_i` is false. None if every candidate
/// leaves all claims true (e.g. all polynomials constant).
pub fn false_point<S: Scheme>(
    info: &KeyInfo,
    polys: &[&S::P],
    values: &[S::F],
    z: &S::Pt,
    seed: u64,
) -> Option<S::Pt> {
    for k in 0..6u64 {
        let cand = match k {
            0 => S::point(info, &FRaw::Rand(seed)),
            1 => S::point(info, &FRaw::Small((seed % 20) as u8)),
            _ => S::point(info, &FRaw::Rand(seed.wrapping_add(k))),
        };
        if &cand == z {
            continue;
        }
        if polys
            .iter()
            .zip(values)
            .any(|(p, v)| p.evaluate(&cand) != *v)
        {
            return Some(cand);
        }
    }
    None
}

/// q != p with the same size limits and q(z) != p(z)
pub fn other_poly<S: Scheme>(info: &KeyInfo, p: &S::P, z: &S::Pt, seed: u64) -> S::P {
    let mut q = S::random_like(info, p, seed);
    if q.evaluate(z) == p.evaluate(z) {
        q += &S::constant(info, S::F::one());
    }
    q
}

pub fn check_trait<S: Scheme>(scn: &Scn, ctx: &mut CaseCtx) -> Result<(), Failure> {
    let tier = current_tier();
    let sess = match Session::<S>::build(scn, tier) {
        Ok(s) => s,
        Err(_) => {
            ctx.label("build_failed(C01)");
            return Ok(());
        }
    };
    classify(&sess, ctx);
    ctx.derived = Some(sess.describe());
    let info = &sess.keys.info;
    let sel = scn.seeds[2];

    // ---- single-point check on one group -------------------------------------------------------
    let gi = (sel % sess.groups.len() as u64) as usize;
    let g = &sess.groups[gi];
    let order = sess.group_order(g);
    let values: Vec<S::F> = order.iter().map(|i| sess.true_value(*i, &g.point)).collect();
    let mut sp = sess.sponge();
    let Out::Ok(proof) = sess.open_idx(&order, &g.point, &mut sp, sess.seeds[1]) else {
        ctx.label("open_failed(C01)");
        return Ok(());
    };
    let honest = sess.check_idx(&order, &g.point, values.clone(), &proof, &mut sess.sponge(), sel);
    if !accepted(&honest) {
        ctx.label("honest_not_accepted(C01)");
        return Ok(());
    }
    let pos = ((sel >> 8) % order.len() as u64) as usize;
    let has_opts = order
        .iter()
        .any(|i| sess.meta[*i].bound.is_some() || sess.meta[*i].hiding.is_some());
    ctx.nontrivial_if(order.len() >= 2 || has_opts);
    ctx.label_if(order.len() >= 2, "position_in_multi_poly_group");

    // value
    {
        let mut v = values.clone();
        // pool: the other polynomials' values at this point, this polynomial's values at the other points
        let mut pool: Vec<S::F> = values.clone();
        pool.extend(sess.point_vals.iter().map(|z| sess.true_value(order[pos], z)));
        let (fv, how) = false_value::<S::F>(values[pos], &pool, sel >> 16);
        ctx.label(how);
        v[pos] = fv;
        let r = sess.check_idx(&order, &g.point, v, &proof, &mut sess.sponge(), sel);
        expect_reject(ctx, P, S::NAME, "check", "value", &r, || {
            format!("value at position {pos} of {} changed", order.len())
        })?;
    }
    // point
    {
        let ps: Vec<&S::P> = order.iter().map(|i| sess.polys[*i].polynomial()).collect();
        match false_point::<S>(info, &ps, &values, &g.point, sel >> 20) {
            Some(z2) => {
                let guard_lp = S::moved_point_pass_log2(&sess.keys, &ps, &proof, &z2);
                if guard_lp.map(|lp| lp > -40.0).unwrap_or(false) {
                    ctx.label("toy_soundness_not_asserted");
                } else {
                    let r = sess.check_idx(&order, &z2, values.clone(), &proof, &mut sess.sponge(), sel);
                    expect_reject(ctx, P, S::NAME, "check", "point", &r, || {
                        format!("point replaced by {}", S::point_json(&z2))
                    })?;
                    ctx.label("point_perturbed");
                }
            }
            None => ctx.label("point_perturbation_impossible(constant)"),
        }
    }
    // commitment
    {
        let i = order[pos];
        let q = other_poly::<S>(info, sess.polys[i].polynomial(), &g.point, sel >> 24);
        let lq = LabeledPolynomial::new(
            sess.polys[i].label().clone(),
            q,
            sess.meta[i].bound,
            sess.meta[i].hiding,
        );
        let mut r0 = rng(sel ^ 0xc0);
        match guard(|| S::PC::commit(&sess.keys.ck, [&lq], Some(&mut r0))) {
            Out::Ok((cq, _)) => {
                let comms: Vec<&LabeledCommitment<Comm<S>>> = order
                    .iter()
                    .map(|j| if *j == i { &cq[0] } else { &sess.comms[*j] })
                    .collect();
                let r = sess.check_comms(comms, &g.point, values.clone(), &proof, &mut sess.sponge(), sel);
                expect_reject(ctx, P, S::NAME, "check", "commitment", &r, || {
                    format!("commitment at position {pos} replaced by a commitment to q != p")
                })?;
                ctx.label("commitment_replaced");
            }
            _ => ctx.label("replacement_commit_failed"),
        }
    }

    // ---- batch ---------------------------------------------------------------------------------
    let qs = sess.query_set();
    let evals = sess.evaluations();
    let mut sp = sess.sponge();
    let Out::Ok(bp) = sess.batch_open(&qs, &mut sp, sess.seeds[1]) else {
        ctx.label("batch_open_failed(C01)");
        return Ok(());
    };
    let honest = sess.batch_check(sess.verifier_comms(), &qs, &evals, &bp, &mut sess.sponge(), sel);
    if !accepted(&honest) {
        ctx.label("honest_batch_not_accepted(C01)");
        return Ok(());
    }
    let gi = ((sel >> 32) % sess.groups.len() as u64) as usize;
    let g = &sess.groups[gi];
    let pi = g.polys[((sel >> 40) % g.polys.len() as u64) as usize];
    let plabel = sess.polys[pi].label().clone();
    ctx.nontrivial_if(gi > 0 || sess.groups.len() >= 2 || g.polys.len() >= 2);
    ctx.label_if(gi > 0, "perturbed_group_not_first");

    // value at (poly, point of group gi)
    {
        let mut e = evals.clone();
        let pool: Vec<S::F> = evals.values().cloned().collect();
        let slot = e.get_mut(&(plabel.clone(), g.point.clone())).unwrap();
        let (fv, how) = false_value::<S::F>(*slot, &pool, sel >> 44);
        ctx.label(how);
        *slot = fv;
        let r = sess.batch_check(sess.verifier_comms(), &qs, &e, &bp, &mut sess.sponge(), sel);
        expect_reject(ctx, P, S::NAME, "batch_check", "value", &r, || {
            format!("value of {plabel} at point label {} changed", g.label)
        })?;
    }
    // point of group gi moved
    {
        let ps: Vec<&S::P> = g.polys.iter().map(|i| sess.polys[*i].polynomial()).collect();
        let vs: Vec<S::F> = g.polys.iter().map(|i| sess.true_value(*i, &g.point)).collect();
        if let Some(z2) = false_point::<S>(info, &ps, &vs, &g.point, sel >> 48) {
            // the moved label keeps its claimed values; other labels are untouched
            let mut q2 = std::collections::BTreeSet::new();
            let mut e2 = std::collections::BTreeMap::new();
            for (i, gg) in sess.groups.iter().enumerate() {
                for pidx in &gg.polys {
                    let l = sess.polys[*pidx].label().clone();
                    let z = if i == gi { z2.clone() } else { gg.point.clone() };
                    let v = sess.true_value(*pidx, &gg.point);
                    q2.insert((l.clone(), (gg.label.clone(), z.clone())));
                    e2.insert((l, z), v);
                }
            }
            // another label may carry z2 for the same polynomial with its true value: then the map
            // cannot express both claims; skip that rare shape
            let conflict = sess.groups.iter().enumerate().any(|(i, gg)| {
                i != gi && gg.point == z2 && gg.polys.iter().any(|p| g.polys.contains(p))
            });
            // the proof list is positional per point label; the honest proof of label gi was made for
            // the old point. Per-polynomial proofs of the default batch are in group order as well.
            let group_order_polys: Vec<&S::P> = ps.clone();
            let single_guard = {
                // for the code-based schemes the batch proof is the list of per-label proofs
                let proofs: Vec<Proof<S>> = bp.clone().into();
                proofs
                    .get(gi)
                    .and_then(|p| S::moved_point_pass_log2(&sess.keys, &group_order_polys, p, &z2))
            };
            if conflict {
                ctx.label("moved_point_conflict_skipped");
            } else if single_guard.map(|lp| lp > -40.0).unwrap_or(false) {
                ctx.label("toy_soundness_not_asserted");
            } else {
                let r = sess.batch_check(sess.verifier_comms(), &q2, &e2, &bp, &mut sess.sponge(), sel);
                expect_reject(ctx, P, S::NAME, "batch_check", "point", &r, || {
                    format!("point of label {} replaced", g.label)
                })?;
                ctx.label("batch_point_perturbed");
            }
        }
    }
    // the query of ONE polynomial of a shared point label moved to another point (the point label and
    // the claimed value stay): the statement now claims p(z2) = p(z). A verifier may refuse the malformed
    // query set or evaluate the claim, but it may not accept - in particular not by looking the value
    // up under the query's own point while checking the proof at the label's point.
    if g.polys.len() >= 2 {
        let p1 = [sess.polys[pi].polynomial()];
        let v1 = [sess.true_value(pi, &g.point)];
        if let Some(z2) = false_point::<S>(info, &p1, &v1, &g.point, sel >> 50) {
            let conflict = sess.groups.iter().any(|gg| gg.point == z2 && gg.polys.contains(&pi));
            if conflict {
                ctx.label("moved_point_conflict_skipped");
            } else {
                let mut q2 = std::collections::BTreeSet::new();
                for (l, (pl, z)) in qs.iter() {
                    if *l == plabel && *pl == g.label {
                        q2.insert((l.clone(), (pl.clone(), z2.clone())));
                    } else {
                        q2.insert((l.clone(), (pl.clone(), z.clone())));
                    }
                }
                let mut e2 = evals.clone();
                let still_queried_at_z = sess.groups.iter().enumerate().any(|(i, gg)| i != gi && gg.point == g.point && gg.polys.contains(&pi));
                if !still_queried_at_z {
                    e2.remove(&(plabel.clone(), g.point.clone()));
                }
                e2.insert((plabel.clone(), z2.clone()), v1[0]);
                let r = sess.batch_check(sess.verifier_comms(), &q2, &e2, &bp, &mut sess.sponge(), sel);
                ctx.label("one_query_of_a_shared_point_label_moved");
                ctx.label_if(g.polys.first() != Some(&pi), "moved_query_not_first_in_label");
                if !still_queried_at_z {
                    expect_reject(ctx, P, S::NAME, "batch_check", "one_query_moved", &r, || {
                        format!("query of {plabel} under point label {} moved to another point, value kept", g.label)
                    })?;
                }
            }
        }
    }
    // commitment of pi replaced
    {
        let q = other_poly::<S>(info, sess.polys[pi].polynomial(), &g.point, sel >> 52);
        let lq = LabeledPolynomial::new(plabel.clone(), q, sess.meta[pi].bound, sess.meta[pi].hiding);
        let mut r0 = rng(sel ^ 0xc1);
        if let Out::Ok((cq, _)) = guard(|| S::PC::commit(&sess.keys.ck, [&lq], Some(&mut r0))) {
            let comms: Vec<&LabeledCommitment<Comm<S>>> = sess
                .perm_v
                .iter()
                .map(|j| if *j == pi { &cq[0] } else { &sess.comms[*j] })
                .collect();
            let r = sess.batch_check(comms, &qs, &evals, &bp, &mut sess.sponge(), sel);
            expect_reject(ctx, P, S::NAME, "batch_check", "commitment", &r, || {
                format!("commitment {plabel} replaced by a commitment to q != p")
            })?;
        }
    }
    Ok(())
}

// ------------------------------------------------------------------------------------------------
// KZG10
// ------------------------------------------------------------------------------------------------

fn check_kzg(c: &KzgCase, ctx: &mut CaseCtx) -> Result<(), Failure> {
    let Ok(keys) = kzg_keys(c.max, c.supported, c.hiding_key, c.seed) else {
        return Ok(());
    };
    let powers = keys.powers();
    let mut crng = rng(c.seeds[0]);
    let (mut polys, mut comms, mut points, mut values, mut proofs, mut hs) =
        (vec![], vec![], vec![], vec![], vec![], vec![]);
    for (pr, zr) in &c.items {
        let (coeffs, _shape) = uni_coeffs::<Fr>(keys.supported, pr);
        let p = UniPoly::from_coefficients_vec(coeffs);
        let h = kzg_hiding(&keys, pr.hiding);
        let z: Fr = zr.to_f();
        let Out::Ok((comm, rand)) = guard(|| Kzg::commit(&powers, &p, h, Some(&mut crng))) else {
            return Ok(());
        };
        let Out::Ok(proof) = guard(|| Kzg::open(&powers, &p, z, &rand)) else {
            return Ok(());
        };
        values.push(p.evaluate(&z));
        polys.push(p);
        comms.push(comm);
        points.push(z);
        proofs.push(proof);
        hs.push(h);
    }
    let n = polys.len();
    let sel = c.seeds[1];
    let pos = (sel % n as u64) as usize;
    ctx.nontrivial_if(n >= 2 || hs[pos].is_some());
    ctx.label_if(pos > 0, "position_not_first");
    ctx.label_if(hs[pos].is_some(), "has_hiding");
    let batch = |comms: &[_], points: &[Fr], values: &[Fr]| {
        guard(|| Kzg::batch_check(&keys.vk, comms, points, values, &proofs, &mut rng(sel)))
    };
    if !accepted(&batch(&comms, &points, &values)) {
        ctx.label("honest_not_accepted(C01)");
        return Ok(());
    }
    // value
    let d: Fr = delta(sel >> 8);
    let r = guard(|| Kzg::check(&keys.vk, &comms[pos], points[pos], values[pos] + d, &proofs[pos]));
    expect_reject(ctx, P, "kzg10", "check", "value", &r, || format!("position {pos}"))?;
    let mut v2 = values.clone();
    v2[pos] += d;
    expect_reject(ctx, P, "kzg10", "batch_check", "value", &batch(&comms, &points, &v2), || {
        format!("position {pos} of {n}")
    })?;
    // point (non-constant polynomials only: p(z') must differ from v)
    let mut z2 = Fr::rand(&mut rng(sel >> 12));
    let mut tries = 0;
    while (z2 == points[pos] || polys[pos].evaluate(&z2) == values[pos]) && tries < 4 {
        z2 += Fr::one();
        tries += 1;
    }
    if z2 != points[pos] && polys[pos].evaluate(&z2) != values[pos] {
        let r = guard(|| Kzg::check(&keys.vk, &comms[pos], z2, values[pos], &proofs[pos]));
        expect_reject(ctx, P, "kzg10", "check", "point", &r, || format!("position {pos}"))?;
        let mut p2 = points.clone();
        p2[pos] = z2;
        expect_reject(ctx, P, "kzg10", "batch_check", "point", &batch(&comms, &p2, &values), || {
            format!("position {pos} of {n}")
        })?;
        ctx.label("point_perturbed");
    }
    // commitment to q != p with q(z) != p(z)
    let mut g = rng(sel >> 16);
    let d = polys[pos].degree();
    let mut q = UniPoly::from_coefficients_vec((0..=d).map(|_| Fr::rand(&mut g)).collect());
    if q.evaluate(&points[pos]) == values[pos] {
        q = &q + &UniPoly::from_coefficients_vec(vec![Fr::one()]);
    }
    if let Out::Ok((cq, _)) = guard(|| Kzg::commit(&powers, &q, hs[pos], Some(&mut g))) {
        let r = guard(|| Kzg::check(&keys.vk, &cq, points[pos], values[pos], &proofs[pos]));
        expect_reject(ctx, P, "kzg10", "check", "commitment", &r, || format!("position {pos}"))?;
        let mut c2 = comms.clone();
        c2[pos] = cq;
        expect_reject(ctx, P, "kzg10", "batch_check", "commitment", &batch(&c2, &points, &values), || {
            format!("position {pos} of {n}")
        })?;
    }
    Ok(())
}

// ------------------------------------------------------------------------------------------------
// multilinear PST
// ------------------------------------------------------------------------------------------------

fn check_ml(c: &MlCase, ctx: &mut CaseCtx) -> Result<(), Failure> {
    let Ok((_pp, ck, vk, nv_max, nv)) = ml_keys(c.nv_max, c.nv, c.seed) else {
        return Ok(());
    };
    let built = mle_from_raw(nv, &c.poly);
    let point: Vec<Fr> = c.point.to_vec(nv);
    let value = built.poly.evaluate(&point);
    let Out::Ok(comm) = guard_plain(|| MlPst::commit(&ck, &built.poly)) else {
        return Ok(());
    };
    let Out::Ok(proof) = guard_plain(|| MlPst::open(&ck, &built.poly, &point)) else {
        return Ok(());
    };
    if !accepted(&guard_plain(|| MlPst::check(&vk, &comm, &point, value, &proof))) {
        ctx.label("honest_not_accepted(C01)");
        return Ok(());
    }
    ctx.label(built.shape);
    ctx.nontrivial_if(nv < nv_max || built.shape != "random");
    let sel = c.poly.seed;
    let r = guard_plain(|| MlPst::check(&vk, &comm, &point, value + delta::<Fr>(sel), &proof));
    expect_reject(ctx, P, "mlpst", "check", "value", &r, || "value+delta".into())?;
    // point: move one coordinate the polynomial depends on
    let mut g = rng(sel ^ 0x99);
    for _ in 0..4 {
        let mut z2 = point.clone();
        let k = (g.next_u32() as usize) % nv;
        z2[k] += Fr::rand(&mut g);
        if z2 != point && built.poly.evaluate(&z2) != value {
            let r = guard_plain(|| MlPst::check(&vk, &comm, &z2, value, &proof));
            expect_reject(ctx, P, "mlpst", "check", "point", &r, || format!("coordinate {k} moved"))?;
            ctx.label("point_perturbed");
            break;
        }
    }
    // commitment
    let mut q = MLE::from_evaluations_vec(nv, (0..1 << nv).map(|_| Fr::rand(&mut g)).collect());
    if q.evaluate(&point) == value {
        q.evaluations[0] += Fr::one();
        if q.evaluate(&point) == value {
            return Ok(());
        }
    }
    if let Out::Ok(cq) = guard_plain(|| MlPst::commit(&ck, &q)) {
        let r = guard_plain(|| MlPst::check(&vk, &cq, &point, value, &proof));
        expect_reject(ctx, P, "mlpst", "check", "commitment", &r, || "commitment to q".into())?;
    }
    Ok(())
}

// ------------------------------------------------------------------------------------------------
// streaming KZG
// ------------------------------------------------------------------------------------------------

fn check_sk(c: &SkCase, ctx: &mut CaseCtx) -> Result<(), Failure> {
    let polys: Vec<Vec<Fr>> = c.polys.iter().map(|(l, s, k)| sk_poly(*l, *s, *k)).collect();
    let points = distinct_points(&c.points);
    let maxlen = polys.iter().map(|p| p.len()).max().unwrap();
    let key_deg = [0usize, 1, 2, 5, 17, 64][c.extra_key as usize] + (maxlen - 1).max(points.len());
    let key_deg = (key_deg + 15) / 16 * 16;
    let ck = sk_keys(key_deg, 8, c.seed);
    let vk = VerifierKey::from(&*ck);
    let sck = CommitterKeyStream::from(&*ck);
    let buf = SK_BUFS[c.buf as usize];
    let eta: Fr = c.eta.to_f();
    let sel = c.polys[0].1;
    ctx.nontrivial_if(points.len() >= 2 || polys.len() >= 2);

    // single point, both provers
    let p0 = &polys[0];
    let alpha = points[0];
    let truth = horner(p0, alpha);
    let Out::Ok(tc) = guard_plain(|| ck.commit(p0)) else { return Ok(()) };
    let be: Vec<Fr> = p0.iter().rev().cloned().collect();
    let be_stream = &be[..];
    let tp = guard_plain(|| ck.open(p0, &alpha));
    let spf = guard_plain(|| sck.open(&be_stream, &alpha, buf));
    for (name, pr) in [("time", tp), ("space", spf)] {
        let Out::Ok((_ev, pr)) = pr else { continue };
        if !accepted(&guard(|| vk.verify(&tc, &alpha, &truth, &pr).map(|_| true))) {
            ctx.label("honest_not_accepted(C01)");
            continue;
        }
        let d: Fr = delta(sel);
        let r = guard(|| vk.verify(&tc, &alpha, &(truth + d), &pr).map(|_| true));
        expect_reject(ctx, P, "skzg", &format!("verify({name})"), "value", &r, || "value+delta".into())?;
        let mut z2 = alpha + Fr::one();
        if horner(p0, z2) == truth {
            z2 += Fr::one();
        }
        if horner(p0, z2) != truth {
            let r = guard(|| vk.verify(&tc, &z2, &truth, &pr).map(|_| true));
            expect_reject(ctx, P, "skzg", &format!("verify({name})"), "point", &r, || "alpha+1".into())?;
        }
        let mut q = p0.clone();
        q[0] += Fr::one();
        if let Out::Ok(cq) = guard_plain(|| ck.commit(&q)) {
            let r = guard(|| vk.verify(&cq, &alpha, &truth, &pr).map(|_| true));
            expect_reject(ctx, P, "skzg", &format!("verify({name})"), "commitment", &r, || "commit(p+1)".into())?;
        }
    }

    // multi-point / multi-polynomial
    let Out::Ok(comms) = guard_plain(|| ck.batch_commit(&polys)) else { return Ok(()) };
    let evals: Vec<Vec<Fr>> = polys
        .iter()
        .map(|p| points.iter().map(|z| horner(p, *z)).collect())
        .collect();
    let refs: Vec<&Vec<Fr>> = polys.iter().collect();
    let Out::Ok(proof) = guard_plain(|| ck.batch_open_multi_points(&refs, &points, &eta)) else {
        return Ok(());
    };
    let verify = |comms: &[_], points: &[Fr], evals: &[Vec<Fr>]| {
        guard(|| vk.verify_multi_points(comms, points, evals, &proof, &eta).map(|_| true))
    };
    if !accepted(&verify(&comms, &points, &evals)) {
        ctx.label("honest_multi_not_accepted(C01)");
        return Ok(());
    }
    let pi = ((sel >> 8) % polys.len() as u64) as usize;
    let zi = ((sel >> 16) % points.len() as u64) as usize;
    // with batching challenge eta, polynomial i enters with weight eta^i: a zero weight erases its claims,
    // so the perturbed claim must carry a non-zero weight to be a detectable false statement
    let weight_nonzero = pi == 0 || !eta.is_zero();
    if weight_nonzero {
        let mut e2 = evals.clone();
        e2[pi][zi] += delta::<Fr>(sel >> 20);
        expect_reject(ctx, P, "skzg", "verify_multi_points", "value", &verify(&comms, &points, &e2), || {
            format!("evaluation of polynomial {pi} at point {zi}")
        })?;
        ctx.label_if(pi > 0 || zi > 0, "position_not_first");
        let mut q = polys[pi].clone();
        q[0] += Fr::one();
        if let Out::Ok(cq) = guard_plain(|| ck.commit(&q)) {
            let mut c2 = comms.clone();
            c2[pi] = cq;
            expect_reject(ctx, P, "skzg", "verify_multi_points", "commitment", &verify(&c2, &points, &evals), || {
                format!("commitment {pi} replaced")
            })?;
        }
    } else {
        ctx.label("zero_batching_weight_skipped");
    }
    // point zi moved (claims kept): false if some weighted polynomial changes value there
    let mut z2 = points[zi] + Fr::one();
    while points.contains(&z2) {
        z2 += Fr::one();
    }
    let combined_changes = {
        // sum_i eta^i (p_i(z2) - p_i(z)) != 0
        let mut acc = Fr::zero();
        let mut w = Fr::one();
        for p in &polys {
            acc += w * (horner(p, z2) - horner(p, points[zi]));
            w *= eta;
        }
        !acc.is_zero()
    };
    if combined_changes {
        let mut p2 = points.clone();
        p2[zi] = z2;
        expect_reject(ctx, P, "skzg", "verify_multi_points", "point", &verify(&comms, &p2, &evals), || {
            format!("point {zi} moved")
        })?;
    }
    Ok(())
}

pub fn spec() -> PropertySpec {
    let budget = |name: &str| -> (u32, u32, usize) {
        match name {
            "marlin" | "sonic" | "pst13" => (120, 1200, 4),
            "ipa" => (160, 1600, 4),
            "brakedown" | "mligero" => (240, 2400, 4),
            _ => (240, 2400, 2),
        }
    };
    let mut units: Vec<Box<dyn Unit>> = crate::per_scheme_units!(
        P,
        "perturbed-statement",
        5,
        check_trait,
        budget,
        [Marlin, Sonic, Ipa, Pst13, Hyrax, ULigero, MLigero, Brakedown]
    );
    macro_rules! comb {
        ($s:ty, $q:expr, $t:expr) => {
            units.push(PropUnit::new(
                format!("C02:{}:false-combination-values", <$s as Scheme>::NAME),
                $q,
                $t,
                4,
                |_| super::c06::case().boxed(),
                |c: &super::c06::Case, ctx: &mut CaseCtx| super::c06::check_false_claims::<$s>(c, ctx, P),
            ));
        };
    }
    comb!(Marlin, 120, 1200);
    comb!(Sonic, 120, 1200);
    comb!(Ipa, 80, 800);
    comb!(Pst13, 80, 800);
    comb!(Hyrax, 60, 600);
    comb!(ULigero, 40, 400);
    comb!(MLigero, 40, 400);
    comb!(Brakedown, 30, 300);
    units.extend(super::c05::correlated_units("C02"));
    units.push(PropUnit::new("C02:kzg10:perturbed-statement", 200, 2000, 2, |_| kzg_case().boxed(), check_kzg));
    units.push(PropUnit::new("C02:mlpst:perturbed-statement", 200, 2000, 2, |_| ml_case().boxed(), check_ml));
    units.push(PropUnit::new("C02:skzg:perturbed-statement", 200, 2000, 2, |_| sk_case().boxed(), check_sk));
    PropertySpec {
        id: "C02",
        rule: "Accepted honest transcripts (C01 scenarios) are perturbed at a scenario-chosen position: a false claimed value (the truth +1 / -1 / + random, 0, the negated or doubled truth, or a value that is true for another claim of the same transcript: another polynomial at this point, this polynomial at another point), point replaced by z' constructed so that the perturbed statement is false (some p_j(z') != v_j; constant-only groups are skipped and counted), commitment replaced by an honest commitment to q != p with q(z) != p(z); each in single check and in batch_check (KZG10 check/batch_check, multilinear PST check, streaming verify/verify_multi_points likewise). Combination openings (all eight trait schemes; also a commitment replaced by one to q != p, and for the algebraic schemes a point label moved): with honest commitments and the honest open_combinations proof, every queried (combination, point) is given each of up to ~12 structured false values (as above, plus the truth with the combination's constant part removed / added again / removed twice, and the values claimed elsewhere in the statement) - check_combinations must accept none, whether or not it accepts the honest transcript. Correlated false claims (the batch scenarios of C05 restricted to false acceptances: errors that cancel inside a label, across labels, weighted by the replayed opening challenges, or in the accumulated proof elements) for Marlin, Sonic, IPA, PST13, KZG10::batch_check and streaming verify_multi_points. Oracle: verifier outcome is Ok(false), Err or abort. For the code-based schemes a moved point is asserted only when the probability that the honest columns pass by chance is <= 2^-40 (computed from the harness's own encoded matrix); other cases are labelled toy_soundness_not_asserted. Non-trivial: perturbed position shares its batch with other claims (>=2 polynomials at the label, >=2 labels, position > 0) or the scenario carries a degree bound / hiding.",
        assumptions: vec![
            "perturbed statements are false by construction (checked with ark-poly evaluate)",
            "rejection of algebraic perturbations fails with probability <= 2^-120 per case",
        ],
        units,
        watchdog_s: (1500, 7200),
    }
}
