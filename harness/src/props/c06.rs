//! C06 — linear-combination openings prove exactly the stated combinations.

use super::c02::{delta, expect_reject, false_value};
use super::common::*;
use crate::engine::{CaseCtx, Failure, PropUnit, PropertySpec, Unit};
use crate::model::{scn_with, Scn};
use crate::schemes::*;
use crate::session::Session;
use crate::types::*;
use crate::util::{accepted, guard, pick, rng, Out};
use ark_ff::{Field, One, UniformRand, Zero};
use ark_poly::Polynomial;
use ark_poly_commit::{
    BatchLCProof, Evaluations, LCTerm, LabeledCommitment, LinearCombination, PolynomialCommitment, QuerySet,
};
use proptest::prelude::*;
use serde::{Deserialize, Serialize};
use serde_json::json;
use std::collections::{BTreeMap, BTreeSet};

const P: &str = "C06";

#[derive(Clone, Debug, Serialize, Deserialize)]
pub struct TermRaw {
    /// 0 => coefficient 0, 1 => 1, 2 => -1, otherwise random
    pub coef: u8,
    pub seed: u64,
    /// polynomial index choice, or the constant term when `one` is set
    pub target: u8,
    pub one: bool,
}

#[derive(Clone, Debug, Serialize, Deserialize)]
pub struct Case {
    pub scn: Scn,
    pub lcs: Vec<Vec<TermRaw>>,
    /// LC query set: for each point label (value choice, LC subset choice)
    pub queries: Vec<(u8, u8)>,
    /// 0 honest only, 1 claimed value, 2 verifier-side coefficient, 3 verifier-side constant, 4 transmitted evaluations,
    /// 5 degree-bound policy
    pub mode: u8,
    pub sel: u64,
}

fn term() -> impl Strategy<Value = TermRaw> {
    (
        prop_oneof![1 => Just(0u8), 2 => Just(1u8), 1 => Just(2u8), 4 => Just(3u8)],
        any::<u64>(),
        any::<u8>(),
        prop_oneof![3 => Just(false), 1 => Just(true)],
    )
        .prop_map(|(coef, seed, target, one)| TermRaw { coef, seed, target, one })
}

pub fn case() -> impl Strategy<Value = Case> {
    (
        scn_with(2, 5, 1),
        proptest::collection::vec(proptest::collection::vec(term(), 1..=6), 1..=4),
        proptest::collection::vec((any::<u8>(), any::<u8>()), 1..=4),
        prop_oneof![1 => Just(0u8), 2 => Just(1u8), 2 => Just(2u8), 2 => Just(3u8), 2 => Just(4u8), 3 => Just(5u8)],
        any::<u64>(),
    )
        .prop_map(|(scn, lcs, queries, mode, sel)| Case { scn, lcs, queries, mode, sel })
}

fn coef<F: Field + UniformRand>(t: &TermRaw) -> F {
    match t.coef {
        0 => F::zero(),
        1 => F::one(),
        2 => -F::one(),
        _ => F::rand(&mut rng(t.seed)),
    }
}

struct Built<S: Scheme> {
    lcs: Vec<LinearCombination<S::F>>,
    /// per LC: (coefficient, Some(poly index) | None for the constant)
    terms: Vec<Vec<(S::F, Option<usize>)>>,
    qs: QuerySet<S::Pt>,
    /// (lc index, point) pairs queried
    queried: Vec<(usize, S::Pt)>,
}

fn build_lcs<S: Scheme>(sess: &Session<S>, c: &Case, strip_one: bool) -> Built<S> {
    let n = sess.n();
    let mut lcs = Vec::new();
    let mut terms = Vec::new();
    for (k, raw) in c.lcs.iter().enumerate() {
        let mut ts: Vec<(S::F, Option<usize>)> = Vec::new();
        for (j, t) in raw.iter().enumerate() {
            let is_one = t.one && j > 0 && !strip_one;
            if is_one {
                ts.push((coef::<S::F>(t), None));
            } else {
                ts.push((coef::<S::F>(t), Some((t.target as usize) % n)));
            }
        }
        let lc_terms: Vec<(S::F, LCTerm)> = ts
            .iter()
            .map(|(cf, tgt)| match tgt {
                Some(i) => (*cf, LCTerm::PolyLabel(sess.polys[*i].label().clone())),
                None => (*cf, LCTerm::One),
            })
            .collect();
        lcs.push(LinearCombination::new(format!("lc{k}"), lc_terms));
        terms.push(ts);
    }
    let mut qs = BTreeSet::new();
    let mut queried = Vec::new();
    let nl = lcs.len();
    for (j, (v, sub)) in c.queries.iter().enumerate() {
        let vi = pick((*v as u16) << 8, sess.point_vals.len());
        let mask = 1 + pick((*sub as u16) << 8, (1usize << nl) - 1);
        for k in 0..nl {
            if mask >> k & 1 == 1 {
                qs.insert((format!("lc{k}"), (format!("pt{j}"), sess.point_vals[vi].clone())));
                if !queried.contains(&(k, sess.point_vals[vi].clone())) {
                    queried.push((k, sess.point_vals[vi].clone()));
                }
            }
        }
    }
    Built { lcs, terms, qs, queried }
}

fn lc_value<S: Scheme>(sess: &Session<S>, terms: &[(S::F, Option<usize>)], z: &S::Pt) -> S::F {
    let mut acc = S::F::zero();
    for (cf, tgt) in terms {
        match tgt {
            Some(i) => acc += *cf * sess.true_value(*i, z),
            None => acc += *cf,
        }
    }
    acc
}

pub fn open_comb<S: Scheme>(sess: &Session<S>, lcs: &[LinearCombination<S::F>], qs: &QuerySet<S::Pt>) -> Out<BatchLCProof<S::F, BatchProof<S>>> {
    let ps: Vec<_> = sess.perm_p.iter().map(|i| &sess.polys[*i]).collect();
    let cs: Vec<_> = sess.perm_p.iter().map(|i| &sess.comms[*i]).collect();
    let ss: Vec<_> = sess.perm_p.iter().map(|i| &sess.states[*i]).collect();
    let mut r = rng(sess.seeds[1]);
    let mut sp = sess.sponge();
    guard(|| S::PC::open_combinations(&sess.keys.ck, lcs, ps, cs, qs, &mut sp, ss, Some(&mut r)))
}

pub fn check_comb<S: Scheme>(
    sess: &Session<S>,
    lcs: &[LinearCombination<S::F>],
    comms: Vec<&LabeledCommitment<Comm<S>>>,
    qs: &QuerySet<S::Pt>,
    evals: &Evaluations<S::Pt, S::F>,
    proof: &BatchLCProof<S::F, BatchProof<S>>,
) -> Out<bool> {
    let mut r = rng(sess.seeds[2]);
    let mut sp = sess.sponge();
    guard(|| S::PC::check_combinations(&sess.keys.vk, lcs, comms, qs, evals, proof, &mut sp, &mut r))
}

pub fn check_trait<S: Scheme>(c: &Case, ctx: &mut CaseCtx) -> Result<(), Failure> {
    let tier = current_tier();
    let mut scn = c.scn.clone();
    let policy = c.mode == 5 && S::HAS_BOUNDS;
    if policy {
        // the policy group is about degree-bounded polynomials: make sure the key enforces bounds, most
        // polynomials carry one, and half of the sessions are non-hiding (the twin-proof attack needs that)
        if scn.key.bounds.is_none() {
            scn.key.bounds = Some(vec![(c.sel >> 3) as u16, (c.sel >> 19) as u16, (c.sel >> 35) as u16]);
        }
        for (k, p) in scn.polys.iter_mut().enumerate() {
            if p.bound == 0 && (c.sel >> (40 + k)) & 1 == 0 {
                p.bound = 1 + ((c.sel >> (8 * k)) & 0xfffe) as u16;
            }
            if (c.sel >> 50) & 1 == 0 {
                p.hiding = 0;
            }
        }
    }
    if !policy {
        // combinations of degree-bounded polynomials are refused by design (policy group); strip the bounds here
        for p in scn.polys.iter_mut() {
            p.bound = 0;
        }
    }
    let Ok(sess) = Session::<S>::build(&scn, tier) else {
        ctx.label("build_failed(C01)");
        return Ok(());
    };
    if policy {
        return check_policy::<S>(&sess, c, ctx);
    }
    let b = build_lcs::<S>(&sess, c, false);
    // classification
    let has_one = b.terms.iter().any(|t| t.iter().any(|x| x.1.is_none()));
    let has_zero = b.terms.iter().any(|t| t.iter().any(|x| x.0.is_zero()));
    let repeated = b.terms.iter().any(|t| {
        let mut seen = BTreeSet::new();
        t.iter().filter_map(|x| x.1).any(|i| !seen.insert(i))
    });
    let mut pts_by_label: BTreeMap<String, S::Pt> = BTreeMap::new();
    for (_, (pl, z)) in &b.qs {
        pts_by_label.insert(pl.clone(), z.clone());
    }
    let shared = {
        let v: Vec<&S::Pt> = pts_by_label.values().collect();
        (0..v.len()).any(|i| (0..i).any(|j| v[i] == v[j]))
    };
    ctx.label_if(has_one, "constant_term");
    ctx.label_if(has_zero, "zero_coefficient");
    ctx.label_if(repeated, "repeated_label_in_lc");
    ctx.label_if(shared, "point_labels_share_a_value");
    ctx.nontrivial_if(has_one || has_zero || repeated || shared);
    ctx.derived = Some(json!({"scheme": S::NAME, "lcs": b.terms.iter().map(|t| t.iter().map(|(c, i)| json!({"coef_is_zero": c.is_zero(), "coef_is_one": c.is_one(), "poly": i})).collect::<Vec<_>>()).collect::<Vec<_>>(),
        "queries": b.qs.iter().map(|(l, (pl, _))| format!("{l}@{pl}")).collect::<Vec<_>>()}));

    let mut evals: Evaluations<S::Pt, S::F> = BTreeMap::new();
    for (k, z) in &b.queried {
        evals.insert((format!("lc{k}"), z.clone()), lc_value::<S>(&sess, &b.terms[*k], z));
    }
    let proof = match open_comb::<S>(&sess, &b.lcs, &b.qs) {
        Out::Ok(p) => p,
        o => {
            return ctx.fail(
                sig(P, S::NAME, "open_combinations", o.kind()),
                format!("honest open_combinations -> {}", o.describe_nodebug()),
            )
        }
    };
    let r = check_comb::<S>(&sess, &b.lcs, sess.verifier_comms(), &b.qs, &evals, &proof);
    ctx.asserts += 1;
    stage_fail(ctx, P, S::NAME, "check_combinations", &r)?;

    let sel = c.sel;
    let (qk, qz) = b.queried[(sel % b.queried.len() as u64) as usize].clone();
    match c.mode {
        1 => {
            let mut e = evals.clone();
            // pool: the other claimed LC values, and this value with the LC's constant part removed,
            // added twice, or negated (the quantities a verifier's constant bookkeeping can get wrong)
            let truth = evals[&(format!("lc{qk}"), qz.clone())];
            let cst: S::F = b.terms[qk].iter().filter(|t| t.1.is_none()).map(|t| t.0).sum();
            let mut pool: Vec<S::F> = evals.values().cloned().collect();
            pool.extend([truth - cst, truth + cst, truth - cst - cst]);
            let (fv, how) = false_value::<S::F>(truth, &pool, sel >> 8);
            ctx.label(how);
            *e.get_mut(&(format!("lc{qk}"), qz.clone())).unwrap() = fv;
            ctx.label("perturb:claimed_value");
            let r = check_comb::<S>(&sess, &b.lcs, sess.verifier_comms(), &b.qs, &e, &proof);
            expect_reject(ctx, P, S::NAME, "check_combinations", "value", &r, || format!("claimed value of lc{qk} changed"))
        }
        2 => {
            // a polynomial term of lc{qk} whose polynomial does not vanish at the queried point
            let cand: Vec<usize> = b.terms[qk]
                .iter()
                .enumerate()
                .filter(|(_, (_, t))| t.map(|i| !sess.true_value(i, &qz).is_zero()).unwrap_or(false))
                .map(|(j, _)| j)
                .collect();
            if cand.is_empty() {
                ctx.label("no_term_with_nonzero_evaluation");
                return Ok(());
            }
            let j = cand[((sel >> 8) % cand.len() as u64) as usize];
            let mut lcs2 = b.lcs.clone();
            lcs2[qk].terms[j].0 += delta::<S::F>(sel >> 16);
            ctx.label("perturb:verifier_coefficient");
            let r = check_comb::<S>(&sess, &lcs2, sess.verifier_comms(), &b.qs, &evals, &proof);
            expect_reject(ctx, P, S::NAME, "check_combinations", "coefficient", &r, || format!("coefficient {j} of lc{qk} changed on the verifier side"))
        }
        3 => {
            let mut lcs2 = b.lcs.clone();
            lcs2[qk] += delta::<S::F>(sel >> 8);
            ctx.label("perturb:verifier_constant");
            let r = check_comb::<S>(&sess, &lcs2, sess.verifier_comms(), &b.qs, &evals, &proof);
            expect_reject(ctx, P, S::NAME, "check_combinations", "constant", &r, || format!("constant term added to lc{qk} on the verifier side"))
        }
        4 => {
            // transmitted evaluations changed so that the LC sum is unchanged (schemes that transmit them)
            let Some(ev) = &proof.evals else {
                ctx.label("scheme_transmits_no_evaluations");
                return Ok(());
            };
            // distinct (polynomial, point) keys in the prover's order
            let mut keys: BTreeSet<(String, S::Pt)> = BTreeSet::new();
            for (k, z) in &b.queried {
                for (_, t) in &b.terms[*k] {
                    if let Some(i) = t {
                        keys.insert((sess.polys[*i].label().clone(), z.clone()));
                    }
                }
            }
            let keys: Vec<_> = keys.into_iter().collect();
            if keys.len() != ev.len() {
                return ctx.fail(sig(P, S::NAME, "open_combinations", "evals_count"), format!("{} evaluations transmitted for {} (polynomial, point) pairs", ev.len(), keys.len()));
            }
            // two different polynomials of lc{qk} with non-zero coefficients at qz
            let mut tot: BTreeMap<usize, S::F> = BTreeMap::new();
            for (cf, t) in &b.terms[qk] {
                if let Some(i) = t {
                    *tot.entry(*i).or_insert(S::F::zero()) += *cf;
                }
            }
            let nzp: Vec<(usize, S::F)> = tot.into_iter().filter(|(_, c)| !c.is_zero()).collect();
            if nzp.len() < 2 {
                ctx.label("lc_has_fewer_than_two_effective_polynomials");
                return Ok(());
            }
            let (ia, ca) = nzp[0];
            let (ib, cb) = nzp[1];
            // the compensation must not be undone by another LC queried at the same point that also uses these polynomials
            let x = delta::<S::F>(sel >> 8);
            let pa = keys.iter().position(|k| k.0 == *sess.polys[ia].label() && k.1 == qz).unwrap();
            let pb = keys.iter().position(|k| k.0 == *sess.polys[ib].label() && k.1 == qz).unwrap();
            let mut ev2 = ev.clone();
            ev2[pa] += x;
            ev2[pb] -= x * ca / cb;
            let proof2 = BatchLCProof { proof: proof.proof.clone(), evals: Some(ev2) };
            ctx.label("perturb:transmitted_evaluations_sum_preserved");
            let r = check_comb::<S>(&sess, &b.lcs, sess.verifier_comms(), &b.qs, &evals, &proof2);
            expect_reject(ctx, P, S::NAME, "check_combinations", "transmitted_evaluations", &r, || format!("evaluations of polynomials {ia},{ib} changed, lc{qk} sum preserved"))
        }
        _ => Ok(()),
    }
}

/// C02's view of combination openings: honest commitments, the honest `open_combinations` proof, and a
/// sweep of false claimed values at every queried (combination, point) - structured candidates (the
/// truth +-1, + random, 0, negated, doubled, with the LC's constant part removed / added again / removed
/// twice, and the values claimed elsewhere in the same statement). None may be accepted, whether or not
/// the verifier accepts the honest transcript (that is C01/C06's business).
pub fn check_false_claims<S: Scheme>(c: &Case, ctx: &mut CaseCtx, prop: &str) -> Result<(), Failure> {
    let tier = current_tier();
    let mut scn = c.scn.clone();
    for p in scn.polys.iter_mut() {
        p.bound = 0;
    }
    let Ok(sess) = Session::<S>::build(&scn, tier) else {
        ctx.label("build_failed(C01)");
        return Ok(());
    };
    let b = build_lcs::<S>(&sess, c, false);
    let mut evals: Evaluations<S::Pt, S::F> = BTreeMap::new();
    for (k, z) in &b.queried {
        evals.insert((format!("lc{k}"), z.clone()), lc_value::<S>(&sess, &b.terms[*k], z));
    }
    let Out::Ok(proof) = open_comb::<S>(&sess, &b.lcs, &b.qs) else {
        ctx.label("open_combinations_failed(C06)");
        return Ok(());
    };
    let honest = check_comb::<S>(&sess, &b.lcs, sess.verifier_comms(), &b.qs, &evals, &proof);
    ctx.label(if accepted(&honest) { "honest_accepted" } else { "honest_not_accepted(C06)" });
    let has_one = b.terms.iter().any(|t| t.iter().any(|x| x.1.is_none()));
    let multi_point = (0..b.lcs.len()).any(|k| b.queried.iter().filter(|q| q.0 == k).count() >= 2);
    ctx.label_if(has_one, "constant_term");
    ctx.label_if(multi_point, "combination_queried_at_several_points");
    ctx.nontrivial_if(has_one || multi_point || b.queried.len() >= 2);
    ctx.derived = Some(json!({"scheme": S::NAME, "queries": b.qs.iter().map(|(l, (pl, _))| format!("{l}@{pl}")).collect::<Vec<_>>()}));
    let all: Vec<S::F> = evals.values().cloned().collect();
    for (n, (qk, qz)) in b.queried.iter().enumerate().take(6) {
        let key = (format!("lc{qk}"), qz.clone());
        let truth = evals[&key];
        let cst: S::F = b.terms[*qk].iter().filter(|t| t.1.is_none()).map(|t| t.0).sum();
        let mut cands: Vec<(S::F, &str)> = vec![
            (truth + S::F::one(), "+1"),
            (truth - S::F::one(), "-1"),
            (truth + delta::<S::F>(c.sel.wrapping_add(n as u64) | 2), "+random"),
            (S::F::zero(), ":= 0"),
            (-truth, "negated"),
            (truth + truth, "doubled"),
            (truth - cst, "constant part removed"),
            (truth + cst, "constant part added again"),
            (truth - cst - cst, "constant part removed twice"),
        ];
        cands.extend(all.iter().map(|v| (*v, "value claimed elsewhere")));
        let mut seen: Vec<S::F> = vec![truth];
        for (fv, how) in cands {
            if seen.contains(&fv) {
                continue;
            }
            seen.push(fv);
            let mut e = evals.clone();
            e.insert(key.clone(), fv);
            let r = check_comb::<S>(&sess, &b.lcs, sess.verifier_comms(), &b.qs, &e, &proof);
            expect_reject(ctx, prop, S::NAME, "check_combinations", "value", &r, || format!("claimed value of lc{qk} at query #{n}: {how}"))?;
        }
    }
    if !accepted(&honest) {
        return Ok(());
    }
    let sel = c.sel;
    // ---- a commitment replaced by an honest commitment to another polynomial --------------------
    {
        let (qk, qz) = b.queried[(sel % b.queried.len() as u64) as usize].clone();
        // a polynomial with a non-zero total coefficient in lc{qk}
        let mut tot: BTreeMap<usize, S::F> = BTreeMap::new();
        for (cf, t) in &b.terms[qk] {
            if let Some(i) = t {
                *tot.entry(*i).or_insert(S::F::zero()) += *cf;
            }
        }
        if let Some((i, _)) = tot.into_iter().find(|(_, cf)| !cf.is_zero()) {
            let q = super::c02::other_poly::<S>(&sess.keys.info, sess.polys[i].polynomial(), &qz, sel >> 8);
            let lq = ark_poly_commit::LabeledPolynomial::new(sess.polys[i].label().clone(), q, sess.meta[i].bound, sess.meta[i].hiding);
            let mut r0 = rng(sel ^ 0xc6);
            if let Out::Ok((cq, _)) = guard(|| S::PC::commit(&sess.keys.ck, [&lq], Some(&mut r0))) {
                let comms: Vec<&LabeledCommitment<Comm<S>>> = sess.perm_v.iter().map(|j| if *j == i { &cq[0] } else { &sess.comms[*j] }).collect();
                let r = check_comb::<S>(&sess, &b.lcs, comms, &b.qs, &evals, &proof);
                ctx.label("commitment_replaced");
                expect_reject(ctx, prop, S::NAME, "check_combinations", "commitment", &r, || format!("commitment of polynomial {i} (used in lc{qk}) replaced by a commitment to q != p"))?;
            }
        }
    }
    // ---- a point label moved (algebraic schemes: rejection is overwhelming, no toy-size guard) -----
    if matches!(S::NAME, "marlin" | "sonic" | "ipa" | "pst13" | "hyrax") {
        let mut labels: Vec<(String, S::Pt)> = b.qs.iter().map(|(_, (pl, z))| (pl.clone(), z.clone())).collect();
        labels.sort();
        labels.dedup();
        let (pl, z_old) = labels[((sel >> 16) % labels.len() as u64) as usize].clone();
        let z_new = S::point(&sess.keys.info, &crate::util::FRaw::Rand(sel >> 20));
        // the statement must become false: some combination queried under this label takes another value at z_new
        let lcs_here: Vec<usize> = b.qs.iter().filter(|(_, (l, _))| *l == pl).map(|(lc, _)| lc[2..].parse::<usize>().unwrap()).collect();
        let becomes_false = lcs_here.iter().any(|k| lc_value::<S>(&sess, &b.terms[*k], &z_new) != lc_value::<S>(&sess, &b.terms[*k], &z_old));
        if z_new != z_old && becomes_false {
            let qs2: QuerySet<S::Pt> = b.qs.iter().map(|(lc, (l, z))| (lc.clone(), (l.clone(), if *l == pl { z_new.clone() } else { z.clone() }))).collect();
            let mut e2: Evaluations<S::Pt, S::F> = BTreeMap::new();
            for (lc, (l, z)) in &b.qs {
                let v = evals[&(lc.clone(), z.clone())];
                let zz = if *l == pl { z_new.clone() } else { z.clone() };
                // two labels sharing the old point value: the unmoved one keeps its own entry
                e2.entry((lc.clone(), zz)).or_insert(v);
            }
            let r = check_comb::<S>(&sess, &b.lcs, sess.verifier_comms(), &qs2, &e2, &proof);
            ctx.label("point_moved");
            expect_reject(ctx, prop, S::NAME, "check_combinations", "point", &r, || format!("point of label {pl} replaced, claimed values kept"))?;
        }
    }
    Ok(())
}

/// Degree-bound policy of the schemes that enforce bounds.
fn check_policy<S: Scheme>(sess: &Session<S>, c: &Case, ctx: &mut CaseCtx) -> Result<(), Failure> {
    let bounded: Vec<usize> = (0..sess.n()).filter(|i| sess.meta[*i].bound.is_some()).collect();
    if bounded.is_empty() {
        ctx.label("no_degree_bounded_polynomial");
        return Ok(());
    }
    let sel = c.sel;
    let pb = bounded[(sel % bounded.len() as u64) as usize];
    let other = (0..sess.n()).find(|i| *i != pb);
    let z = sess.point_vals[0].clone();
    let lab = |i: usize| LCTerm::PolyLabel(sess.polys[i].label().clone());
    let one = S::F::one();
    let rnd = {
        let mut x = S::F::rand(&mut rng(sel >> 8));
        if x.is_one() || x.is_zero() {
            x += S::F::one() + S::F::one();
        }
        x
    };
    let kind = (sel >> 16) % 4;
    let (terms, name): (Vec<(S::F, LCTerm)>, &str) = match kind {
        0 => (vec![(one, lab(pb))], "single_bounded_coefficient_one"),
        1 => (vec![(rnd, lab(pb))], "single_bounded_coefficient_not_one"),
        2 if other.is_some() => (vec![(one, lab(pb)), (rnd, lab(other.unwrap()))], "bounded_mixed_with_polynomial"),
        _ => (vec![(one, lab(pb)), (rnd, LCTerm::One)], "bounded_mixed_with_constant"),
    };
    ctx.label(&format!("policy:{name}"));
    ctx.nontrivial = true;
    let lc = LinearCombination::new("lc0", terms.clone());
    let mut qs = BTreeSet::new();
    qs.insert(("lc0".to_string(), ("pt".to_string(), z.clone())));
    let mut value = S::F::zero();
    for (cf, t) in &terms {
        match t {
            LCTerm::One => value += *cf,
            LCTerm::PolyLabel(l) => {
                let i = (0..sess.n()).find(|i| sess.polys[*i].label() == l).unwrap();
                value += *cf * sess.true_value(i, &z);
            }
        }
    }
    let mut evals = BTreeMap::new();
    evals.insert(("lc0".to_string(), z.clone()), value);
    let lcs = vec![lc];
    let opened = open_comb::<S>(sess, &lcs, &qs);
    if kind == 0 {
        let proof = match opened {
            Out::Ok(p) => p,
            o => return ctx.fail(sig(P, S::NAME, "open_combinations", "bounded_single_refused"), format!("[1*p_b] refused: {}", o.describe_nodebug())),
        };
        let r = check_comb::<S>(sess, &lcs, sess.verifier_comms(), &qs, &evals, &proof);
        ctx.asserts += 1;
        stage_fail(ctx, P, S::NAME, "check_combinations([1*p_b])", &r)?;
        // the bound is still enforced: present p_b's commitment under another admissible bound
        let d1 = sess.meta[pb].bound.unwrap();
        let cands: Vec<usize> = sess.keys.info.bounds_for(sess.meta[pb].deg).into_iter().filter(|d| *d != d1).collect();
        let v = sess.true_value(pb, &z);
        if let Some(d) = cands.first() {
            let admissible = match S::NAME {
                // Sonic: C made under d1 and presented under d > d1 is a valid bounded commitment to x^(d-d1)*p;
                // with the honest proof it verifies exactly when p(z) = 0 (then the claim is not false)
                "sonic" => !v.is_zero(),
                "ipa" => {
                    // z^(d-d1) != 1, z != 0, p(z) != 0 (point identity)
                    !v.is_zero() && {
                        let zz: S::F = point_as_field::<S>(&z);
                        !zz.is_zero() && !zz.pow([d.abs_diff(d1) as u64]).is_one()
                    }
                }
                _ => !v.is_zero(),
            };
            if admissible {
                let relabelled = LabeledCommitment::new(sess.polys[pb].label().clone(), sess.comms[pb].commitment().clone(), Some(*d));
                let comms: Vec<&LabeledCommitment<Comm<S>>> = sess.perm_v.iter().map(|j| if *j == pb { &relabelled } else { &sess.comms[*j] }).collect();
                ctx.label("policy:bound_still_enforced");
                let r = check_comb::<S>(sess, &lcs, comms, &qs, &evals, &proof);
                expect_reject(ctx, P, S::NAME, "check_combinations", "mislabelled_bound_in_lc", &r, || format!("p_b committed under {d1}, presented as {d}"))?;
            }
        }
        Ok(())
    } else {
        ctx.asserts += 1;
        if let Out::Ok(_) = opened {
            return ctx.fail(sig(P, S::NAME, "open_combinations", "bound_dropping_combination_opened"), format!("{name}: open_combinations returned a proof instead of refusing"));
        }
        let dummy: BatchLCProof<S::F, BatchProof<S>> = BatchLCProof { proof: Vec::<Proof<S>>::new().into(), evals: None };
        let r = check_comb::<S>(sess, &lcs, sess.verifier_comms(), &qs, &evals, &dummy);
        ctx.check(!accepted(&r), sig(P, S::NAME, "check_combinations", "bound_dropping_combination_accepted"), || format!("{name}: {}", r.describe()))?;
        // The honest proof of the admissible equation [1*p_b] presented for the refused equation
        // [p_b + c*One] with the value moved by c (true as arithmetic, but an equation the scheme declares
        // outside its domain: the prover refuses it, so the verifier may not answer it positively).
        if kind == 3 {
            let lcs1 = vec![LinearCombination::new("lc0", vec![(one, lab(pb))])];
            if let Out::Ok(p1) = open_comb::<S>(sess, &lcs1, &qs) {
                ctx.label("policy:proof_of_[1*p_b]_presented_for_[p_b+c]");
                let r = check_comb::<S>(sess, &lcs, sess.verifier_comms(), &qs, &evals, &p1);
                ctx.check(!accepted(&r), sig(P, S::NAME, "check_combinations", "refused_equation_answered_positively"), || {
                    format!("{name}: open_combinations refuses this equation, yet check_combinations accepted it with the proof of [1*p_b] and the value moved by the constant")
                })?;
            }
        }
        // A real proof for the refused combination: the prover opens it over *unbounded twins* - polynomials
        // without a degree bound whose plain commitment is the group element the verifier holds for the
        // bounded original (Marlin / IPA: the polynomial itself; Sonic: x^(max_degree - d) * p, whose
        // commitment is the bounded commitment of p) - and the verifier, holding the honest bounded
        // commitments, must still refuse. Non-hiding sessions only (commitments are then deterministic).
        if sess.meta.iter().any(|m| m.hiding.is_some()) {
            return Ok(());
        }
        let mut twins = Vec::new();
        for i in 0..sess.n() {
            let tw = match (S::NAME, sess.meta[i].bound) {
                ("sonic", Some(d)) => match sonic_twin::<S>(sess.polys[i].polynomial(), sess.keys.info.max_degree - d, sess.keys.info.supported) {
                    Some(t) => t,
                    None => {
                        ctx.label("policy:no_unbounded_twin_within_supported_degree");
                        return Ok(());
                    }
                },
                _ => sess.polys[i].polynomial().clone(),
            };
            twins.push(ark_poly_commit::LabeledPolynomial::new(sess.polys[i].label().clone(), tw, None, None));
        }
        let Out::Ok((tc, ts)) = guard(|| S::PC::commit(&sess.keys.ck, twins.iter(), None)) else {
            ctx.label("policy:twin_commit_refused");
            return Ok(());
        };
        let mut sp = sess.sponge();
        let Out::Ok(tproof) = guard(|| S::PC::open_combinations(&sess.keys.ck, &lcs, twins.iter(), tc.iter(), &qs, &mut sp, ts.iter(), None)) else {
            ctx.label("policy:twin_open_refused");
            return Ok(());
        };
        // the value the twin proof proves
        let mut tval = S::F::zero();
        for (cf, t) in &terms {
            match t {
                LCTerm::One => tval += *cf,
                LCTerm::PolyLabel(l) => {
                    let i = (0..sess.n()).find(|i| sess.polys[*i].label() == l).unwrap();
                    tval += *cf * twins[i].polynomial().evaluate(&z);
                }
            }
        }
        let mut tevals = BTreeMap::new();
        tevals.insert(("lc0".to_string(), z.clone()), tval);
        ctx.label("policy:proof_over_unbounded_twins_presented");
        let r = check_comb::<S>(sess, &lcs, sess.verifier_comms(), &qs, &tevals, &tproof);
        ctx.check(!accepted(&r), sig(P, S::NAME, "check_combinations", "bound_dropping_combination_accepted"), || {
            format!("{name}: a proof made over unbounded twins of the polynomials was accepted against the honest degree-bounded commitments (claimed value {} the true one)", if tval == value { "equals" } else { "differs from" })
        })
    }
}

/// Sonic: x^shift * p as an unbounded polynomial (None if it exceeds the supported degree)
fn sonic_twin<S: Scheme>(p: &S::P, shift: usize, supported: usize) -> Option<S::P> {
    use ark_poly::DenseUVPolynomial;
    let any: &dyn std::any::Any = p;
    let up = any.downcast_ref::<UniPoly>()?;
    if up.coeffs.is_empty() {
        return Some(p.clone());
    }
    if up.coeffs.len() - 1 + shift > supported {
        return None;
    }
    let mut c = vec![Fr::zero(); shift];
    c.extend_from_slice(&up.coeffs);
    let tw: Box<dyn std::any::Any> = Box::new(UniPoly::from_coefficients_vec(c));
    tw.downcast::<S::P>().ok().map(|b| *b)
}

/// univariate schemes only (the policy group runs for Marlin, Sonic, IPA): the point is a field element
fn point_as_field<S: Scheme>(z: &S::Pt) -> S::F {
    let any: &dyn std::any::Any = z;
    if let Some(f) = any.downcast_ref::<S::F>() {
        *f
    } else {
        S::F::one()
    }
}

pub fn spec() -> PropertySpec {
    let mut units: Vec<Box<dyn Unit>> = Vec::new();
    macro_rules! add {
        ($s:ty, $q:expr, $t:expr, $sh:expr) => {
            units.push(PropUnit::new(
                format!("C06:{}:combinations", <$s as Scheme>::NAME),
                $q,
                $t,
                $sh,
                |_| case().boxed(),
                |c: &Case, ctx: &mut CaseCtx| check_trait::<$s>(c, ctx),
            ));
        };
    }
    add!(Marlin, 240, 1920, 4);
    add!(Sonic, 240, 1920, 4);
    add!(Ipa, 200, 1600, 4);
    add!(Pst13, 200, 1600, 4);
    add!(Hyrax, 240, 1920, 4);
    add!(ULigero, 240, 1920, 2);
    add!(MLigero, 240, 1920, 4);
    add!(Brakedown, 200, 1600, 4);
    PropertySpec {
        id: "C06",
        rule: "2-5 committed polynomials (bounds stripped except in the policy group), 1-4 linear combinations of 1-6 terms (coefficient in {0,1,-1,random}; term = polynomial label, possibly repeated, or the constant One; first term is a polynomial), LC query sets over 1-4 point labels mapped to 1-3 point values (so labels share values and LCs share labels). Oracle: open_combinations is Ok and check_combinations accepts the true LC values (computed from ark-poly evaluations); then one perturbation - claimed LC value, a verifier-side coefficient (of a polynomial that does not vanish at the queried point), a verifier-side constant, or (schemes that transmit evaluations) two transmitted evaluations changed so that the LC sum is preserved - is not accepted. Policy group (Marlin, Sonic, IPA): [1*p_b] opens, verifies and still enforces the bound (mislabelled commitment rejected at an admissible point); [c*p_b] with c != 1, [p_b, q] and [p_b, c*One] are refused by open_combinations (Err or abort) and not accepted by check_combinations - neither with an empty proof nor with a real proof that the prover made over unbounded twins of the polynomials (the polynomial itself for Marlin / IPA, x^(max-d)*p for Sonic, whose plain commitment is the bounded commitment). Non-trivial: an LC with a One term, a zero coefficient, a repeated label, or two point labels with one value; policy cases always.",
        assumptions: vec!["LC labels are distinct from polynomial labels; one point per point label"],
        units,
        watchdog_s: (1800, 7200),
    }
}
