//! C08 — commitments are the key-defined linear map of the polynomial (homomorphic); hash-based
//! commitments equal an independent recomputation of the Merkle root.

use super::c01::{kzg_case, kzg_hiding, kzg_keys, ml_case, ml_keys, sk_keys, sk_poly, to_sparse_mle, KzgCase, MlCase};
use super::common::*;
use crate::engine::{CaseCtx, Failure, PropUnit, PropertySpec, Unit};
use crate::lincode::{self, Lin};
use crate::model::{fraw, scn_with, Scn};
use crate::oracle::{naive_sum, Alg};
use crate::schemes::*;
use crate::session::Session;
use crate::types::*;
use crate::util::{guard, guard_plain, rng, ser, FRaw, Out};
use ark_ec::{AffineRepr, CurveGroup};
use ark_ff::{One, PrimeField, UniformRand, Zero};
use ark_poly::{DenseMVPolynomial, DenseUVPolynomial, Polynomial};
use ark_poly_commit::streaming_kzg::CommitterKeyStream;
use ark_poly_commit::{LabeledPolynomial, PolynomialCommitment};
use ark_std::iterable::Reverse;
use proptest::prelude::*;
use serde::{Deserialize, Serialize};
use serde_json::json;

const P: &str = "C08";

#[derive(Clone, Debug, Serialize, Deserialize)]
pub struct Case {
    pub scn: Scn,
    pub a: FRaw,
    pub b: FRaw,
    /// give both polynomials the same (bound, hiding) choice so their commitments have the same layout
    pub align: bool,
}

pub fn case() -> impl Strategy<Value = Case> {
    (scn_with(2, 3, 1), fraw(), fraw(), prop_oneof![3 => Just(true), 1 => Just(false)]).prop_map(|(mut scn, a, b, align)| {
        scn.perm_p = 0;
        Case { scn, a, b, align }
    })
}

fn commit_one<S: Scheme>(keys: &Keys<S>, lp: &LabeledPolynomial<S::F, S::P>, seed: u64) -> Out<(Comm<S>, State<S>)> {
    let mut r = rng(seed);
    match guard(|| S::PC::commit(&keys.ck, [lp], Some(&mut r))) {
        Out::Ok((mut c, mut s)) if c.len() == 1 && s.len() == 1 => Out::Ok((c.remove(0).commitment().clone(), s.remove(0))),
        Out::Ok(_) => Out::Err("wrong list length".into()),
        Out::Err(e) => Out::Err(e),
        Out::Abort(e) => Out::Abort(e),
    }
}

pub fn check_alg<S: Alg>(c: &Case, ctx: &mut CaseCtx, always_hiding: bool) -> Result<(), Failure> {
    let tier = current_tier();
    let Ok(keys) = S::keys(&c.scn.key, tier) else {
        ctx.label("keys_failed(C09)");
        return Ok(());
    };
    let info = keys.info.clone();
    // two polynomials; the second optionally aligned with the first one's bound / hiding
    let b0 = S::poly(&info, &c.scn.polys[0]);
    let b1 = S::poly(&info, &c.scn.polys[1]);
    let (p, q) = (b0.poly.clone(), b1.poly.clone());
    let dmax = p.degree().max(q.degree());
    let (bound, hiding) = crate::session::choose_bound_hiding::<S>(&info, dmax, c.scn.polys[0].bound, c.scn.polys[0].hiding);
    let (bound_q, hiding_q) = if c.align {
        (bound, hiding)
    } else {
        crate::session::choose_bound_hiding::<S>(&info, q.degree(), c.scn.polys[1].bound, c.scn.polys[1].hiding)
    };
    let bound_p = if c.align { bound } else { crate::session::choose_bound_hiding::<S>(&info, p.degree(), c.scn.polys[0].bound, 0).0 };
    ctx.label(b0.shape);
    ctx.label(b1.shape);
    ctx.label_if(bound_p.is_some(), "has_degree_bound");
    ctx.label_if(hiding.is_some(), "has_hiding");
    let maxb = info.enforced.as_ref().and_then(|e| e.last().cloned());
    ctx.nontrivial_if(
        b0.shape == "leading_zero" || b1.shape == "leading_zero" || b0.shape == "zero"
            || (bound_p.is_some() && bound_p != maxb)
            || p.degree() < info.supported,
    );
    ctx.derived = Some(json!({"scheme": S::NAME, "key": info.desc, "p": {"shape": b0.shape, "deg": p.degree(), "bound": bound_p, "hiding": hiding},
        "q": {"shape": b1.shape, "deg": q.degree(), "bound": bound_q, "hiding": hiding_q}}));

    // ---- non-hiding commitment == naive key-defined sum, for every part --------------------------
    let group_eq = |x: &[S::Grp], y: &[S::Grp]| x.len() == y.len() && x.iter().zip(y).all(|(a, b)| a == b);
    if !always_hiding {
        for (name, poly, bd) in [("p", &p, bound_p), ("q", &q, bound_q)] {
            let lp = LabeledPolynomial::new(name.into(), poly.clone(), bd, None);
            let (cm, _) = match commit_one::<S>(&keys, &lp, c.scn.seeds[0]) {
                Out::Ok(x) => x,
                o => return ctx.fail(sig(P, S::NAME, "commit", o.kind()), format!("non-hiding commit({name}) -> {}", o.describe_nodebug())),
            };
            let naive = match S::naive_parts(&keys, poly, bd) {
                Ok(v) => v,
                Err(e) => return ctx.fail(sig(P, S::NAME, "naive", "undefined"), e),
            };
            let parts = S::comm_parts(&cm);
            ctx.check(group_eq(&parts, &naive), sig(P, S::NAME, "commit", "not_key_defined_sum"), || {
                let k = parts.iter().zip(&naive).position(|(a, b)| a != b);
                format!("commit({name}) differs from the naive sum over the key (part {k:?}, bound {bd:?}, degree {})", poly.degree())
            })?;
            if S::is_zero_poly(poly) {
                ctx.check(parts.iter().all(|x| x.is_zero()), sig(P, S::NAME, "commit", "zero_not_identity"), || "zero polynomial does not commit to the identity".into())?;
            }
            // the same polynomial in another representation of its type commits to the same element
            if let Some((alt, how)) = S::alt_representation(&keys, poly, c.scn.seeds[2] ^ (name.len() as u64 + poly.degree() as u64)) {
                ctx.label(how);
                let la = LabeledPolynomial::new(name.into(), alt, bd, None);
                match commit_one::<S>(&keys, &la, c.scn.seeds[0]) {
                    Out::Ok((ca, _)) => {
                        ctx.check(group_eq(&S::comm_parts(&ca), &naive), sig(P, S::NAME, "commit", "depends_on_representation"), || {
                            format!("commit({name}) with {how} differs from the commitment of the canonical form")
                        })?;
                    }
                    o => return ctx.fail(sig(P, S::NAME, "commit", "representation_refused"), format!("commit({name}) with {how} -> {}", o.describe_nodebug())),
                }
            }
            // deterministic without hiding
            if let Out::Ok((cm2, _)) = commit_one::<S>(&keys, &lp, c.scn.seeds[1]) {
                ctx.check(ser(&cm) == ser(&cm2), sig(P, S::NAME, "commit", "non_hiding_not_deterministic"), || "two non-hiding commitments differ".into())?;
            }
        }
    }

    if always_hiding {
        // a scheme that always blinds (Hyrax): commitment minus the blinding term of the returned state
        // is the naive key-defined sum, part by part (row by row)
        for (name, poly) in [("p", &p), ("q", &q)] {
            let lp = LabeledPolynomial::new(name.into(), poly.clone(), None, None);
            let (cm, st) = match commit_one::<S>(&keys, &lp, c.scn.seeds[0]) {
                Out::Ok(x) => x,
                o => return ctx.fail(sig(P, S::NAME, "commit", o.kind()), format!("commit({name}) -> {}", o.describe_nodebug())),
            };
            let naive = match S::naive_parts(&keys, poly, None) {
                Ok(v) => v,
                Err(e) => return ctx.fail(sig(P, S::NAME, "naive", "undefined"), e),
            };
            let parts = S::comm_parts(&cm);
            let blind = match S::blinding(&keys, &st, None) {
                Ok(b) => b,
                Err(e) => return ctx.fail(sig(P, S::NAME, "state", "unreadable"), e),
            };
            ctx.check(parts.len() == naive.len() && blind.len() == naive.len(), sig(P, S::NAME, "commit", "part_count"), || {
                format!("{} commitment parts, {} blinders, {} rows expected", parts.len(), blind.len(), naive.len())
            })?;
            for k in 0..parts.len() {
                let term = blind[k].as_ref().map(|b| b.term).unwrap_or(S::Grp::zero());
                ctx.check(parts[k] - term == naive[k], sig(P, S::NAME, "commit", "not_key_defined_sum"), || {
                    format!("commit({name}) part {k}: commitment minus its blinding term differs from the naive sum over the key")
                })?;
            }
            if S::is_zero_poly(poly) {
                ctx.check(naive.iter().all(|x| x.is_zero()), sig(P, "harness", "naive", "zero"), || "naive commitment of zero".into())?;
            }
        }
    }

    // ---- additivity: commit(a p + b q) == a commit(p) + b commit(q), parts and randomness --------
    let a: S::F = c.a.to_f();
    let bb: S::F = c.b.to_f();
    let mut lin = S::constant(&info, S::F::zero());
    lin += (a, &p);
    lin += (bb, &q);
    if let (true, Ok(naive_lin)) = (c.align, S::naive_parts(&keys, &lin, bound)) {
        let lp = LabeledPolynomial::new("p".into(), p.clone(), bound, hiding);
        let lq = LabeledPolynomial::new("q".into(), q.clone(), bound, hiding);
        let (Out::Ok((cp, sp)), Out::Ok((cq, sq))) = (commit_one::<S>(&keys, &lp, c.scn.seeds[0]), commit_one::<S>(&keys, &lq, c.scn.seeds[1])) else {
            ctx.label("commit_failed(C01)");
            return Ok(());
        };
        let (pp, pq) = (S::comm_parts(&cp), S::comm_parts(&cq));
        if pp.len() == pq.len() && pp.len() == naive_lin.len() {
            let comb: Vec<S::Grp> = pp.iter().zip(&pq).map(|(x, y)| *x * a + *y * bb).collect();
            if hiding.is_none() && !always_hiding {
                ctx.check(group_eq(&comb, &naive_lin), sig(P, S::NAME, "commit", "not_additive"), || {
                    "a*commit(p) + b*commit(q) != naive commit(a*p + b*q)".into()
                })?;
                // and against the library's own commitment to the combination
                let ll = LabeledPolynomial::new("l".into(), lin.clone(), bound, None);
                if let Out::Ok((cl, _)) = commit_one::<S>(&keys, &ll, 1) {
                    ctx.check(group_eq(&S::comm_parts(&cl), &comb), sig(P, S::NAME, "commit", "not_additive"), || {
                        "commit(a*p + b*q) != a*commit(p) + b*commit(q)".into()
                    })?;
                }
                ctx.label("additivity_checked");
            } else if always_hiding {
                // blinders combine with the same coefficients
                if let (Ok(bp), Ok(bq)) = (S::blinding(&keys, &sp, bound), S::blinding(&keys, &sq, bound)) {
                    for k in 0..comb.len() {
                        let tp = bp.get(k).and_then(|x| x.as_ref()).map(|x| x.term).unwrap_or(S::Grp::zero());
                        let tq = bq.get(k).and_then(|x| x.as_ref()).map(|x| x.term).unwrap_or(S::Grp::zero());
                        ctx.check(comb[k] - naive_lin[k] == tp * a + tq * bb, sig(P, S::NAME, "commit", "not_additive"), || {
                            format!("part {k}: a*C_p + b*C_q - naive(a*p + b*q) != a*blind_p + b*blind_q")
                        })?;
                    }
                    ctx.label("additivity_checked");
                }
            } else if let Some(r) = S::combine_states(a, &sp, bb, &sq) {
                // homomorphic randomness: the combined state must open the combined commitment
                match S::blinding(&keys, &r, bound) {
                    Ok(bl) => {
                        for k in 0..comb.len() {
                            let term = bl.get(k).and_then(|x| x.as_ref()).map(|x| x.term).unwrap_or(S::Grp::zero());
                            ctx.check(comb[k] - naive_lin[k] == term, sig(P, S::NAME, "randomness", "not_additive"), || {
                                format!("part {k}: a*C_p + b*C_q - naive(a*p + b*q) != blinding term of (empty + (a, r_p) + (b, r_q)); bound {bound:?}, hiding {hiding:?}")
                            })?;
                        }
                        ctx.label("randomness_additivity_checked");
                    }
                    Err(e) => return ctx.fail(sig(P, S::NAME, "randomness", "combined_state_unreadable"), e),
                }
            }
        }
    }
    Ok(())
}

// ------------------------------------------------------------------------------------------------
// hash-based schemes
// ------------------------------------------------------------------------------------------------

pub fn check_lin<S: Lin>(c: &Case, ctx: &mut CaseCtx) -> Result<(), Failure> {
    let tier = current_tier();
    let Ok(keys) = S::keys(&c.scn.key, tier) else { return Ok(()) };
    let info = keys.info.clone();
    let b0 = S::poly(&info, &c.scn.polys[0]);
    let b1 = S::poly(&info, &c.scn.polys[1]);
    let lp = LabeledPolynomial::new("p".into(), b0.poly.clone(), None, None);
    let mut r = rng(1);
    let (cm, st) = match guard(|| S::PC::commit(&keys.ck, [&lp], Some(&mut r))) {
        Out::Ok((mut c, mut s)) => (c.remove(0), s.remove(0)),
        o => return ctx.fail(sig(P, S::NAME, "commit", o.kind()), o.describe_nodebug()),
    };
    let mc = match lincode::comm_mirror::<S>(&cm) {
        Ok(m) => m,
        Err(e) => return ctx.fail(sig(P, S::NAME, "commit", "mirror"), e),
    };
    let (n_rows, n_cols, _rows, ext) = match lincode::ref_matrices::<S>(&keys.ck, &b0.poly) {
        Ok(x) => x,
        Err(e) => return ctx.fail(sig(P, S::NAME, "reference", "undefined"), e),
    };
    let len = lincode::poly_vec::<S>(&b0.poly).len();
    ctx.label(b0.shape);
    ctx.label_if(!len.is_power_of_two(), "non_power_of_two_length");
    ctx.nontrivial_if(!len.is_power_of_two() || b0.shape != "random");
    ctx.derived = Some(json!({"scheme": S::NAME, "key": info.desc, "shape": b0.shape, "coefficients": len, "n_rows": n_rows, "n_cols": n_cols, "n_ext_cols": ext[0].len()}));
    ctx.check(
        mc.metadata.n_rows == n_rows && mc.metadata.n_cols == n_cols && mc.metadata.n_ext_cols == ext[0].len(),
        sig(P, S::NAME, "commit", "metadata"),
        || format!("metadata {:?} vs compute_dimensions ({n_rows}, {n_cols}) and encoded length {}", mc.metadata, ext[0].len()),
    )?;
    let cols = lincode::columns_of(&ext);
    let leaves: Vec<Vec<u8>> = cols.iter().map(|c| lincode::col_hash(c)).collect();
    let root = lincode::ref_root(&leaves);
    ctx.check(root == mc.root, sig(P, S::NAME, "commit", "root_mismatch"), || {
        "commitment root differs from the reference Merkle root over the column hashes of the row-encoded coefficient matrix".into()
    })?;
    // the state the prover keeps is the same matrix
    if let Ok(ms) = lincode::mirror::<State<S>, lincode::MState>(&st) {
        ctx.check(ms.ext_mat.entries == ext && ms.leaves == leaves, sig(P, S::NAME, "commit", "state_mismatch"), || {
            "commitment state (encoded matrix / leaves) differs from the reference".into()
        })?;
    }
    // determinism and sensitivity
    let mut r2 = rng(2);
    if let Out::Ok((c2, _)) = guard(|| S::PC::commit(&keys.ck, [&lp], Some(&mut r2))) {
        ctx.check(ser(c2[0].commitment()) == ser(cm.commitment()), sig(P, S::NAME, "commit", "not_deterministic"), || "equal polynomials gave different roots".into())?;
    }
    if lincode::poly_vec::<S>(&b1.poly) != lincode::poly_vec::<S>(&b0.poly) {
        let lq = LabeledPolynomial::new("p".into(), b1.poly.clone(), None, None);
        if let Out::Ok((cq, _)) = guard(|| S::PC::commit(&keys.ck, [&lq], Some(&mut r2))) {
            if let Ok(mq) = lincode::comm_mirror::<S>(&cq[0]) {
                // polynomials that differ only by zero padding share a matrix; compare the padded vectors
                let mut v0 = lincode::poly_vec::<S>(&b0.poly);
                let mut v1 = lincode::poly_vec::<S>(&b1.poly);
                let l = v0.len().max(v1.len());
                v0.resize(l, Fr::zero());
                v1.resize(l, Fr::zero());
                if v0 != v1 {
                    ctx.check(mq.root != mc.root || mq.metadata != mc.metadata, sig(P, S::NAME, "commit", "different_polynomials_same_commitment"), || {
                        "two different polynomials have the same commitment".into()
                    })?;
                }
            }
        }
    }
    Ok(())
}

// ------------------------------------------------------------------------------------------------
// inherent-API schemes
// ------------------------------------------------------------------------------------------------

fn check_kzg(c: &KzgCase, ctx: &mut CaseCtx) -> Result<(), Failure> {
    let Ok(keys) = kzg_keys(c.max, c.supported, c.hiding_key, c.seed) else { return Ok(()) };
    let powers = keys.powers();
    let mut comms = Vec::new();
    let mut polys = Vec::new();
    for (pr, _) in &c.items {
        let (coeffs, shape) = uni_coeffs::<Fr>(keys.supported, pr);
        let p = UniPoly::from_coefficients_vec(coeffs);
        ctx.label(shape);
        ctx.nontrivial_if(shape == "leading_zero" || shape == "zero" || p.degree() < keys.supported);
        let (cm, _) = match guard(|| Kzg::commit(&powers, &p, None, None)) {
            Out::Ok(x) => x,
            o => return ctx.fail(sig(P, "kzg10", "commit", o.kind()), o.describe_nodebug()),
        };
        let naive = naive_sum(&keys.powers_g, p.coeffs()).unwrap();
        ctx.check(cm.0.into_group() == naive, sig(P, "kzg10", "commit", "not_key_defined_sum"), || format!("commit != naive sum ({shape}, degree {})", p.degree()))?;
        comms.push(cm);
        polys.push(p);
    }
    if polys.len() >= 2 {
        let a = Fr::rand(&mut rng(c.seeds[0]));
        let mut acc = comms[0];
        acc += (a, &comms[1]);
        let lin = &polys[0] + &(&polys[1] * a);
        let naive = naive_sum(&keys.powers_g, lin.coeffs()).unwrap();
        ctx.check(acc.0.into_group() == naive, sig(P, "kzg10", "commitment_add_assign", "not_additive"), || "C_p += (a, C_q) != naive(p + a q)".into())?;
    }
    Ok(())
}

fn check_ml(c: &MlCase, ctx: &mut CaseCtx) -> Result<(), Failure> {
    let Ok((_pp, ck, _vk, nv_max, nv)) = ml_keys(c.nv_max, c.nv, c.seed) else { return Ok(()) };
    let built = mle_from_raw(nv, &c.poly);
    let Out::Ok(cm) = guard_plain(|| MlPst::commit(&ck, &built.poly)) else { return Ok(()) };
    let naive = naive_sum(&ck.powers_of_g[0], &built.poly.evaluations).map_err(|e| Failure { sig: sig(P, "mlpst", "key", "too_short"), msg: e })?;
    ctx.label(built.shape);
    ctx.nontrivial_if(nv < nv_max || built.shape != "random");
    ctx.check(cm.g_product.into_group() == naive && cm.nv == nv, sig(P, "mlpst", "commit", "not_key_defined_sum"), || "commit != sum evals * powers_of_g[0]".into())?;
    let sp = to_sparse_mle(&built.poly);
    if let Out::Ok(cs) = guard_plain(|| MlPst::commit(&ck, &sp)) {
        ctx.check(cs.g_product == cm.g_product, sig(P, "mlpst", "commit", "representation_dependent"), || "sparse and dense representations commit differently".into())?;
    }
    // a polynomial with fewer variables than the key (the committer serves it): the same linear map over the
    // key's own table - the sum of its evaluations times the first 2^k elements - hence equal to the
    // commitment of the zero-padded polynomial, and additive with it
    if nv >= 2 {
        let k = 1 + (c.poly.seed as usize) % (nv - 1);
        let small = mle_from_raw(k, &c.poly);
        if let Out::Ok(cs) = guard_plain(|| MlPst::commit(&ck, &small.poly)) {
            let naive_s = naive_sum(&ck.powers_of_g[0][..1 << k], &small.poly.evaluations).map_err(|e| Failure { sig: sig(P, "mlpst", "key", "too_short"), msg: e })?;
            ctx.label("fewer_variables_than_the_key");
            ctx.check(cs.g_product.into_group() == naive_s, sig(P, "mlpst", "commit", "not_key_defined_sum"), || {
                format!("{k}-variate polynomial under a key for {nv} variables: commit != sum evals * powers_of_g[0]")
            })?;
            let mut padded = small.poly.evaluations.clone();
            padded.resize(1 << nv, Fr::zero());
            let pad = MLE::from_evaluations_vec(nv, padded);
            if let Out::Ok(cp) = guard_plain(|| MlPst::commit(&ck, &pad)) {
                ctx.check(cp.g_product == cs.g_product, sig(P, "mlpst", "commit", "representation_dependent"), || "a polynomial and its zero-padded copy commit differently".into())?;
            }
        }
    }
    Ok(())
}

#[derive(Clone, Debug, Serialize, Deserialize)]
pub struct SkC8 {
    pub len: u16,
    pub seed: u64,
    pub kind: u8,
    pub extra: u8,
    pub key_seed: u8,
}

fn check_sk(c: &SkC8, ctx: &mut CaseCtx) -> Result<(), Failure> {
    let p = sk_poly(c.len, c.seed, c.kind);
    let key_deg = ((p.len() - 1 + [0usize, 1, 3, 20][c.extra as usize % 4]) + 15) / 16 * 16;
    let ck = sk_keys(key_deg, 8, c.key_seed);
    let sck = CommitterKeyStream::from(&*ck);
    // the published G1 powers, low degree first
    let mut g: Vec<G1A> = sck.powers_of_g.0.to_vec();
    // Reverse(slice) iterates back to front: the stream holds the key high-degree first
    let _ = &mut g;
    let naive = naive_sum(&g, &p).map_err(|e| Failure { sig: sig(P, "skzg", "key", "too_short"), msg: e })?.into_affine();
    ctx.nontrivial_if(!p.len().is_power_of_two() || c.kind != 0);
    let Out::Ok(tc) = guard_plain(|| ck.commit(&p)) else { return Ok(()) };
    let Out::Ok(sc) = guard_plain(|| sck.commit(&Reverse(&p[..]))) else { return Ok(()) };
    ctx.check(tc == sc, sig(P, "skzg", "commit", "time_space_differ"), || "time and space commitments differ".into())?;
    ctx.check(format!("{:?}", tc) == format!("Commitment({:?})", naive), sig(P, "skzg", "commit", "not_key_defined_sum"), || {
        "streaming commitment differs from the naive sum over the published powers".into()
    })?;
    // index_by: the derived key commits q to the same element as the original key commits p, p[j] = q[idx[j]]
    // (indices generated with repetitions, values below the key length)
    {
        let klen = g.len();
        let mut gi = rng(c.seed ^ 0x1d);
        use rand_core::RngCore;
        let span = 1 + (gi.next_u64() as usize) % p.len().min(klen);
        let idx: Vec<usize> = (0..p.len().min(klen)).map(|_| (gi.next_u64() as usize) % span).collect();
        let q: Vec<Fr> = (0..span).map(|_| Fr::rand(&mut gi)).collect();
        let expanded: Vec<Fr> = idx.iter().map(|i| q[*i]).collect();
        let mut sorted = idx.clone();
        sorted.sort();
        sorted.dedup();
        ctx.label_if(sorted.len() < idx.len(), "index_by_with_repeated_indices");
        if let (Out::Ok(ik), Out::Ok(want)) = (guard_plain(|| ck.index_by(&idx)), guard_plain(|| ck.commit(&expanded))) {
            if let Out::Ok(got) = guard_plain(|| ik.commit(&q)) {
                ctx.check(got == want, sig(P, "skzg", "index_by", "not_key_defined_sum"), || {
                    format!("index_by({} indices over {span} slots).commit(q) differs from commit of the expanded vector", idx.len())
                })?;
            }
        }
    }
    // as_committer_key(d): the ordinary key derived from the stream is the published key's first d powers
    {
        let klen = g.len();
        use rand_core::RngCore;
        let mut gd = rng(c.seed ^ 0xa5c);
        let d = if c.extra % 3 == 0 { klen } else { 1 + (gd.next_u64() as usize) % klen };
        if let Out::Ok(dk) = guard_plain(|| sck.as_committer_key(d)) {
            let m = p.len().min(d);
            let want = naive_sum(&g[..d], &p[..m]).map_err(|e| Failure { sig: sig(P, "skzg", "key", "too_short"), msg: e })?.into_affine();
            ctx.label_if(d < klen, "derived_key_shorter_than_the_stream");
            if let Out::Ok(got) = guard_plain(|| dk.commit(&p[..m])) {
                ctx.check(format!("{:?}", got) == format!("Commitment({:?})", want), sig(P, "skzg", "as_committer_key", "not_the_published_powers"), || {
                    format!("as_committer_key({d}) of a stream of {klen} powers commits to something else than the sum over the first {d} published powers")
                })?;
            }
        } else {
            return ctx.fail(sig(P, "skzg", "as_committer_key", "refused"), format!("as_committer_key({d}) of a stream of {klen} powers aborted"));
        }
    }
    // a folded stream (the polynomial folded `depth` times with challenges) commits to the naive sum over
    // the published powers of the folded coefficients - for every length, multiple of 2^depth or not
    let depth = (c.extra as usize / 4) % 4;
    if depth >= 1 {
        use ark_poly_commit::streaming_kzg::FoldedPolynomialStream;
        let ch: Vec<Fr> = (0..depth).map(|i| Fr::rand(&mut rng(c.seed ^ (0x77 + i as u64)))).collect();
        let folds = super::c14::naive_folds(&p, &ch);
        let keep = (p.len() + (1 << depth) - 1) >> depth;
        let folded: Vec<Fr> = folds[depth - 1][..keep].to_vec();
        let be: Vec<Fr> = p.iter().rev().cloned().collect();
        let be_stream = &be[..];
        let st = FoldedPolynomialStream::new(&be_stream, &ch);
        ctx.label_if(p.len() % (1 << depth) != 0, "folded_stream_length_not_multiple_of_2^depth");
        if let Out::Ok(fc) = guard_plain(|| sck.commit(&st)) {
            let naive_f = naive_sum(&g, &folded).map_err(|e| Failure { sig: sig(P, "skzg", "key", "too_short"), msg: e })?.into_affine();
            ctx.check(format!("{:?}", fc) == format!("Commitment({:?})", naive_f), sig(P, "skzg", "commit(folded stream)", "not_key_defined_sum"), || {
                format!("length {}, depth {depth}: commitment of the folded stream differs from the naive sum over the published powers of its {} coefficients", p.len(), folded.len())
            })?;
        } else {
            return ctx.fail(sig(P, "skzg", "commit(folded stream)", "abort"), format!("length {}, depth {depth}", p.len()));
        }
    }
    Ok(())
}

pub fn spec() -> PropertySpec {
    let mut units: Vec<Box<dyn Unit>> = Vec::new();
    macro_rules! add {
        ($s:ty, $q:expr, $t:expr, $sh:expr, $ah:expr) => {
            units.push(PropUnit::new(
                format!("C08:{}:key-defined", <$s as Scheme>::NAME),
                $q,
                $t,
                $sh,
                |_| case().boxed(),
                |c: &Case, ctx: &mut CaseCtx| check_alg::<$s>(c, ctx, $ah),
            ));
        };
    }
    add!(Marlin, 300, 3000, 4, false);
    add!(Sonic, 300, 3000, 4, false);
    add!(Ipa, 300, 3000, 4, false);
    add!(Pst13, 240, 2400, 4, false);
    add!(Hyrax, 200, 2000, 4, true);
    macro_rules! addl {
        ($s:ty, $q:expr, $t:expr, $sh:expr) => {
            units.push(PropUnit::new(
                format!("C08:{}:reference-root", <$s as Scheme>::NAME),
                $q,
                $t,
                $sh,
                |_| case().boxed(),
                |c: &Case, ctx: &mut CaseCtx| check_lin::<$s>(c, ctx),
            ));
        };
    }
    addl!(ULigero, 300, 3000, 2);
    addl!(MLigero, 300, 3000, 4);
    addl!(Brakedown, 240, 2400, 4);
    units.push(PropUnit::new("C08:kzg10:key-defined", 300, 3000, 2, |_| kzg_case().boxed(), check_kzg));
    units.push(PropUnit::new("C08:mlpst:key-defined", 300, 3000, 2, |_| ml_case().boxed(), check_ml));
    units.push(PropUnit::new(
        "C08:skzg:key-defined",
        300,
        3000,
        2,
        |_| {
            (any::<u16>(), any::<u64>(), 0u8..4, 0u8..16, 0u8..3)
                .prop_map(|(len, seed, kind, extra, key_seed)| SkC8 { len, seed, kind, extra, key_seed })
                .boxed()
        },
        check_sk,
    ));
    PropertySpec {
        id: "C08",
        rule: "Generated keys and polynomial pairs (all shape classes: zero, constant, random, low-order zeros, sparse, maximal degree, mixed monomials) with scalars a, b. Oracles: non-hiding commit(p) equals the naive sum of published key elements weighted by the coefficients/evaluations, part by part (Marlin/IPA shifted part over the window (max bound - b).., Sonic shifted powers, PST13 term-indexed powers, multilinear PST hypercube table, streaming KZG published powers, KZG10 powers); zero polynomial -> identity; non-hiding commitments are deterministic; a*commit(p)+b*commit(q) equals the naive commitment of a*p+b*q and the library's own commitment to it; with hiding, the state empty+(a,r_p)+(b,r_q) built with the scheme's AddAssign opens a*C_p+b*C_q (plain and degree-bound part); KZG10 Commitment += (a, C) is additive; sparse and dense multilinear representations commit equally; time and space streaming commitments agree. Hash-based schemes: commitment root equals the harness's own Merkle root over Blake2s column hashes of the row-encoded, row-major, zero-padded coefficient matrix; metadata equals compute_dimensions and the encoded length; state matrices equal the reference; equal polynomials give equal roots, different (zero-padded) coefficient vectors different commitments. Non-trivial: polynomial with low-order zero coefficients or zero polynomial, degree bound below the largest enforced bound, degree below the supported degree, or a coefficient count that is not a power of two.",
        assumptions: vec![
            "group arithmetic of ark-ec (scalar multiplication, addition) is the trusted base of the naive sums",
            "Hyrax has no non-hiding commitment: its key-defined identity is checked in C07 (commitment - naive row sum == r_i*h)",
        ],
        units,
        watchdog_s: (1500, 7200),
    }
}

