//! C03 — no crafted or malformed proof proves a false claim.

use super::c01::{distinct_points, kzg_case, kzg_hiding, kzg_keys, ml_case, ml_keys, sk_case, sk_keys, sk_poly, KzgCase, MlCase, SkCase, SK_BUFS};
use super::c02::{delta, expect_reject, false_point, other_poly};
use super::common::*;
use crate::attacks::{mutate_kzg_proof, op_raw, Attack, OpRaw};
use crate::engine::{CaseCtx, Failure, PropUnit, PropertySpec, Unit};
use crate::model::{scn, Scn};
use crate::schemes::*;
use crate::session::Session;
use crate::types::*;
use crate::util::{accepted, guard, guard_plain, rng, FRaw, Out};
use ark_ec::CurveGroup;
use ark_ff::{One, UniformRand, Zero};
use ark_poly::{DenseUVPolynomial, Polynomial};
use ark_poly_commit::streaming_kzg::{CommitterKeyStream, VerifierKey};
use ark_poly_commit::{LabeledCommitment, LabeledPolynomial, PolynomialCommitment};
use proptest::prelude::*;
use serde::{Deserialize, Serialize};
use serde_json::json;

const P: &str = "C03";

#[derive(Clone, Debug, Serialize, Deserialize)]
pub struct Case {
    pub scn: Scn,
    /// 0 = mutation program, 1 = prover run on (q, state_q), 2 = proof replayed from another point,
    /// 3 = proof of another committed polynomial, 4 = batch proof list reshaped,
    /// 5 = scheme-specific forgery built with the library's prover (falls back to 0 where there is none),
    /// 6 = mutation program applied to one proof inside an otherwise honest multi-label batch
    pub mode: u8,
    pub ops: Vec<OpRaw>,
    pub sel: u64,
}

pub fn case() -> impl Strategy<Value = Case> {
    (
        scn(4),
        prop_oneof![6 => Just(0u8), 2 => Just(1u8), 1 => Just(2u8), 1 => Just(3u8), 2 => Just(4u8), 2 => Just(5u8), 3 => Just(6u8)],
        proptest::collection::vec(op_raw(), 1..=3),
        any::<u64>(),
    )
        .prop_map(|(scn, mode, ops, sel)| Case {
            scn,
            mode,
            ops,
            sel,
        })
}

pub fn check_trait<S: Attack>(c: &Case, ctx: &mut CaseCtx) -> Result<(), Failure> {
    let tier = current_tier();
    // the prover-built forgeries work on polynomials without degree bounds: strip them for that mode
    let mut scn_forge = c.scn.clone();
    if c.mode == 5 && S::NAME != "marlin" {
        for p in scn_forge.polys.iter_mut() {
            p.bound = 0;
        }
    }
    if c.mode == 5 && S::NAME == "marlin" {
        // Marlin's forgery is about degree-bounded, non-hiding polynomials opened alone
        if scn_forge.key.bounds.is_none() {
            scn_forge.key.bounds = Some(vec![(c.sel >> 3) as u16, (c.sel >> 19) as u16]);
        }
        for p in scn_forge.polys.iter_mut() {
            if p.bound == 0 {
                p.bound = 1 + ((c.sel >> 9) & 0xffe) as u16;
            }
            p.hiding = 0;
        }
        for l in scn_forge.labels.iter_mut() {
            l.subset = 1; // one polynomial per point label where the model allows it
        }
    }
    // one forgery case in four runs under the scheme's large keys (a key defect that appears only above a
    // size threshold - say, generators that repeat after 256 - is invisible at the ordinary sizes)
    let large = c.mode == 5 && S::HAS_FORGE && (c.sel >> 52) % 4 == 0;
    let built = if large {
        ctx.label("large_key");
        S::keys_large(&scn_forge.key, tier, c.sel >> 54).and_then(|k| Session::<S>::build_with_keys(&scn_forge, k))
    } else {
        Session::<S>::build(&scn_forge, tier)
    };
    let Ok(sess) = built else {
        ctx.label("build_failed(C01)");
        return Ok(());
    };
    let info = &sess.keys.info;
    let sel = c.sel;
    let gi = (sel % sess.groups.len() as u64) as usize;
    let g = &sess.groups[gi];
    // Entry point the adversarial proof is presented to: the single-point verifier, or (one case in
    // three) the batch verifier, as a one-label query set with a one-element proof list. The batch
    // verifiers group a label's polynomials in label order, so the proof is made in that order.
    let via_batch = (sel >> 4) % 3 == 0 && c.mode != 4 && c.mode != 6;
    let order = if via_batch {
        let mut o = g.polys.clone();
        o.sort_by_key(|i| sess.polys[*i].label().clone());
        o
    } else {
        sess.group_order(g)
    };
    let entry = if via_batch { "batch_check" } else { "check" };
    ctx.label(if via_batch { "entry:batch_check(one label)" } else { "entry:check" });
    let present = |vals: Vec<S::F>, proof: &Proof<S>| -> Out<bool> {
        if via_batch {
            sess.batch_check_group(g, &order, &vals, proof, &mut sess.sponge(), sel)
        } else {
            sess.check_idx(&order, &g.point, vals, proof, &mut sess.sponge(), sel)
        }
    };
    let values: Vec<S::F> = order.iter().map(|i| sess.true_value(*i, &g.point)).collect();
    let Out::Ok(proof) = sess.open_idx(&order, &g.point, &mut sess.sponge(), sess.seeds[1]) else {
        ctx.label("open_failed(C01)");
        return Ok(());
    };
    if !accepted(&present(values.clone(), &proof)) {
        ctx.label("honest_not_accepted(C01)");
        return Ok(());
    }
    let pos = ((sel >> 8) % order.len() as u64) as usize;
    let mut desc = json!({"scheme": S::NAME, "key": sess.keys.info.desc, "group_size": order.len(), "entry": entry});
    let mode = if c.mode == 5 && !S::HAS_FORGE { 0 } else { c.mode };

    match mode {
        0 => {
            ctx.label("mode:mutation_program");
            let m = S::mutate(&sess, &order, &g.point, &values, &proof, &c.ops);
            for l in &m.desc {
                // class label = the mutation without its indices
                let cls: String = l.chars().filter(|ch| !ch.is_ascii_digit()).collect();
                ctx.label(&format!("mut:{}", crate::util::trunc(&cls, 60)));
            }
            let mut claimed = m.values.clone().unwrap_or_else(|| values.clone());
            let pos = m.focus.filter(|f| *f < order.len()).unwrap_or(pos);
            if claimed == values {
                claimed[pos] += delta::<S::F>(sel >> 16);
            } else {
                ctx.label("claim_follows_mutated_vector");
            }
            desc["mutations"] = json!(m.desc);
            ctx.derived = Some(desc);
            if m.guard_log2.map(|lp| lp > -40.0).unwrap_or(false) {
                ctx.label("toy_soundness_not_asserted");
                return Ok(());
            }
            let r = present(claimed, &m.proof);
            // non-trivial: the mutated proof reaches the algebraic checks (clean `false`), or it would
            // still be accepted for the true values
            let reaches = matches!(r, Out::Ok(false));
            let still_valid = !reaches
                && accepted(&present(values.clone(), &m.proof));
            ctx.label_if(reaches, "rejected_by_algebraic_check");
            ctx.label_if(still_valid, "mutation_keeps_true_claim_valid");
            ctx.label_if(!reaches && !still_valid, "rejected_by_shape_check");
            ctx.nontrivial_if(reaches || still_valid);
            expect_reject(ctx, P, S::NAME, entry, "mutated_proof", &r, || m.desc.join("; "))
        }
        1 => {
            // the library's prover run on different polynomials and their own states, presented
            // against the commitments of the original polynomials with the claim q(z)
            ctx.label("mode:foreign_prover");
            let mut lqs = Vec::new();
            for (k, i) in order.iter().enumerate() {
                let q = other_poly::<S>(info, sess.polys[*i].polynomial(), &g.point, sel.wrapping_add(k as u64));
                lqs.push(LabeledPolynomial::new(
                    sess.polys[*i].label().clone(),
                    q,
                    sess.meta[*i].bound,
                    sess.meta[*i].hiding,
                ));
            }
            let mut r0 = rng(sel ^ 0xf0);
            let Out::Ok((_cq, sq)) = guard(|| S::PC::commit(&sess.keys.ck, lqs.iter(), Some(&mut r0))) else {
                ctx.label("foreign_commit_failed");
                return Ok(());
            };
            let cs: Vec<_> = order.iter().map(|i| &sess.comms[*i]).collect();
            let mut r1 = rng(sel ^ 0xf1);
            let mut sp = sess.sponge();
            let fp = guard(|| {
                S::PC::open(&sess.keys.ck, lqs.iter(), cs.clone(), &g.point, &mut sp, sq.iter(), Some(&mut r1))
            });
            let Out::Ok(fp) = fp else {
                ctx.label("foreign_open_refused");
                return Ok(());
            };
            let claimed: Vec<S::F> = lqs.iter().map(|q| q.polynomial().evaluate(&g.point)).collect();
            ctx.nontrivial = true;
            ctx.derived = Some(desc);
            let r = present(claimed, &fp);
            expect_reject(ctx, P, S::NAME, entry, "foreign_prover", &r, || {
                "proof computed from (q, state_q) accepted against commitment(p) for q(z)".into()
            })
        }
        2 => {
            ctx.label("mode:replay_other_point");
            let ps: Vec<&S::P> = order.iter().map(|i| sess.polys[*i].polynomial()).collect();
            let Some(z2) = false_point::<S>(info, &ps, &values, &g.point, sel >> 20) else {
                ctx.label("no_distinguishing_point(constant)");
                return Ok(());
            };
            let Out::Ok(p2) = sess.open_idx(&order, &z2, &mut sess.sponge(), sess.seeds[1]) else {
                return Ok(());
            };
            let claimed: Vec<S::F> = order.iter().map(|i| sess.true_value(*i, &z2)).collect();
            ctx.nontrivial = true;
            ctx.derived = Some(desc);
            // proof and values are honest for z2 but presented at z (where at least one value is false)
            let r = present(claimed, &p2);
            expect_reject(ctx, P, S::NAME, entry, "replayed_point", &r, || {
                "proof made at another point accepted".into()
            })
        }
        3 => {
            ctx.label("mode:proof_of_other_polynomial");
            if sess.n() < 2 {
                ctx.label("single_polynomial_session");
                return Ok(());
            }
            let i = order[pos];
            let j = (0..sess.n()).find(|j| {
                *j != i && sess.true_value(*j, &g.point) != sess.true_value(i, &g.point)
            });
            let Some(j) = j else {
                ctx.label("no_other_polynomial_with_different_value");
                return Ok(());
            };
            let Out::Ok(pj) = sess.open_idx(&[j], &g.point, &mut sess.sponge(), sess.seeds[1]) else {
                return Ok(());
            };
            ctx.nontrivial = true;
            ctx.derived = Some(desc);
            let r = sess.check_idx(&[i], &g.point, vec![sess.true_value(j, &g.point)], &pj, &mut sess.sponge(), sel);
            expect_reject(ctx, P, S::NAME, "check", "proof_of_other_polynomial", &r, || {
                "proof for p_j accepted for commitment(p_i) and value p_j(z)".into()
            })
        }
        5 => {
            ctx.label("mode:prover_built_forgery");
            let Some(f) = S::forge(&sess, &order, &g.point, sel) else {
                ctx.label("forgery_refused_by_prover");
                return Ok(());
            };
            if f.point.is_none() && f.claimed == values {
                ctx.label("forgery_claims_true_values");
                return Ok(());
            }
            if f.guard_log2.map(|lp| lp > -40.0).unwrap_or(false) {
                ctx.label("toy_soundness_not_asserted");
                return Ok(());
            }
            ctx.nontrivial = true;
            desc["forgery"] = json!(f.desc);
            ctx.derived = Some(desc);
            let r = match &f.point {
                // the forgery chose its own point: present it there (single-point verifier, or a one-label batch)
                Some(z2) => {
                    ctx.label("forgery_at_its_own_point");
                    if via_batch {
                        let g2 = crate::session::Group { label: g.label.clone(), value_idx: g.value_idx, point: z2.clone(), polys: g.polys.clone() };
                        sess.batch_check_group(&g2, &order, &f.claimed, &f.proof, &mut sess.sponge(), sel)
                    } else {
                        sess.check_idx(&order, z2, f.claimed.clone(), &f.proof, &mut sess.sponge(), sel)
                    }
                }
                None => present(f.claimed.clone(), &f.proof),
            };
            expect_reject(ctx, P, S::NAME, entry, "prover_built_forgery", &r, || f.desc.clone())
        }
        6 => {
            // One proof of an honest batch is mutated and the claim of its label falsified; every other
            // label keeps its honest proof and true values (so a batch verifier that lets a later label's
            // verdict overwrite an earlier one, or stops looking after the first label, is exposed).
            ctx.label("mode:mutation_inside_batch");
            let qs = sess.query_set();
            let mut evals = sess.evaluations();
            let Out::Ok(bp) = sess.batch_open(&qs, &mut sess.sponge(), sess.seeds[1]) else {
                return Ok(());
            };
            if !accepted(&sess.batch_check(sess.verifier_comms(), &qs, &evals, &bp, &mut sess.sponge(), sel)) {
                ctx.label("honest_batch_not_accepted(C01)");
                return Ok(());
            }
            let mut proofs: Vec<Proof<S>> = bp.into();
            // groups in the batch verifiers' order (point label)
            let mut gs: Vec<&crate::session::Group<S::Pt>> = sess.groups.iter().collect();
            gs.sort_by(|a, b| a.label.cmp(&b.label));
            if proofs.len() != gs.len() {
                ctx.label("proof_list_not_one_per_label");
                return Ok(());
            }
            let n = gs.len();
            let k = if n >= 2 && (sel >> 6) % 4 != 0 { ((sel >> 12) % (n as u64 - 1)) as usize } else { ((sel >> 12) % n as u64) as usize };
            ctx.label_if(n >= 2 && k + 1 < n, "mutated_label_not_last");
            let gk = gs[k];
            let mut ord = gk.polys.clone();
            ord.sort_by_key(|i| sess.polys[*i].label().clone());
            let vals: Vec<S::F> = ord.iter().map(|i| sess.true_value(*i, &gk.point)).collect();
            let m = S::mutate(&sess, &ord, &gk.point, &vals, &proofs[k], &c.ops);
            if m.guard_log2.map(|lp| lp > -40.0).unwrap_or(false) {
                ctx.label("toy_soundness_not_asserted");
                return Ok(());
            }
            let mut claimed = m.values.clone().unwrap_or_else(|| vals.clone());
            if claimed == vals {
                let pos = m.focus.filter(|f| *f < ord.len()).unwrap_or(((sel >> 8) % ord.len() as u64) as usize);
                claimed[pos] += delta::<S::F>(sel >> 16);
            }
            for (i, v) in ord.iter().zip(&claimed) {
                evals.insert((sess.polys[*i].label().clone(), gk.point.clone()), *v);
            }
            // a point value shared by two labels shares its evaluation entries: the other label's claim
            // became false as well, which only makes rejection more certain
            proofs[k] = m.proof.clone();
            desc["mutations"] = json!(m.desc);
            desc["mutated_label"] = json!(gk.label);
            ctx.nontrivial_if(n >= 2);
            ctx.derived = Some(desc);
            let bp2: BatchProof<S> = proofs.into();
            let r = sess.batch_check(sess.verifier_comms(), &qs, &evals, &bp2, &mut sess.sponge(), sel);
            ctx.label_if(matches!(r, Out::Ok(false)), "rejected_by_algebraic_check");
            expect_reject(ctx, P, S::NAME, "batch_check", "mutated_proof_inside_batch", &r, || format!("label {} of {n}: {}", gk.label, m.desc.join("; ")))
        }
        _ => {
            ctx.label("mode:batch_list_shape");
            let qs = sess.query_set();
            let mut evals = sess.evaluations();
            let Out::Ok(bp) = sess.batch_open(&qs, &mut sess.sponge(), sess.seeds[1]) else {
                return Ok(());
            };
            if !accepted(&sess.batch_check(sess.verifier_comms(), &qs, &evals, &bp, &mut sess.sponge(), sel)) {
                ctx.label("honest_batch_not_accepted(C01)");
                return Ok(());
            }
            let mut proofs: Vec<Proof<S>> = bp.into();
            let n = proofs.len();
            let o = &c.ops[0];
            let what = match o.op % 7 {
                0 => {
                    proofs.clear();
                    "empty"
                }
                1 => {
                    proofs.pop();
                    "last_dropped"
                }
                2 => {
                    proofs.remove(0);
                    "first_dropped"
                }
                3 => {
                    let p = proofs[(o.arg as usize) % n].clone();
                    proofs.push(p);
                    "one_appended"
                }
                4 => {
                    proofs.reverse();
                    "reversed"
                }
                5 => {
                    let k = (o.arg as usize) % n;
                    proofs.truncate(k);
                    "truncated"
                }
                _ => {
                    let p = proofs[0].clone();
                    for x in proofs.iter_mut() {
                        *x = p.clone();
                    }
                    "all_equal_first"
                }
            };
            ctx.label(&format!("list:{what}"));
            // one false value, preferably in a group whose proof is now missing
            let tgt = &sess.groups[((sel >> 24) % sess.groups.len() as u64) as usize];
            let pi = tgt.polys[((sel >> 32) % tgt.polys.len() as u64) as usize];
            *evals
                .get_mut(&(sess.polys[pi].label().clone(), tgt.point.clone()))
                .unwrap() += delta::<S::F>(sel >> 40);
            ctx.nontrivial_if(n >= 2 || what == "empty");
            ctx.derived = Some(desc);
            let bp2: BatchProof<S> = proofs.into();
            let r = sess.batch_check(sess.verifier_comms(), &qs, &evals, &bp2, &mut sess.sponge(), sel);
            expect_reject(ctx, P, S::NAME, "batch_check", &format!("proof_list_{what}"), &r, || {
                format!("batch of {n} point labels with one false value")
            })
        }
    }
}

// ------------------------------------------------------------------------------------------------
// inherent-API schemes
// ------------------------------------------------------------------------------------------------

#[derive(Clone, Debug, Serialize, Deserialize)]
pub struct KzgC3 {
    pub base: KzgCase,
    pub ops: Vec<OpRaw>,
    pub mode: u8,
}

fn check_kzg(c: &KzgC3, ctx: &mut CaseCtx) -> Result<(), Failure> {
    let b = &c.base;
    let Ok(keys) = kzg_keys(b.max, b.supported, b.hiding_key, b.seed) else { return Ok(()) };
    let powers = keys.powers();
    let mut crng = rng(b.seeds[0]);
    let (mut polys, mut comms, mut points, mut values, mut proofs) = (vec![], vec![], vec![], vec![], vec![]);
    for (pr, zr) in &b.items {
        let (coeffs, _) = uni_coeffs::<Fr>(keys.supported, pr);
        let p = UniPoly::from_coefficients_vec(coeffs);
        let h = kzg_hiding(&keys, pr.hiding);
        let z: Fr = zr.to_f();
        let Out::Ok((comm, rand)) = guard(|| Kzg::commit(&powers, &p, h, Some(&mut crng))) else { return Ok(()) };
        let Out::Ok(proof) = guard(|| Kzg::open(&powers, &p, z, &rand)) else { return Ok(()) };
        values.push(p.evaluate(&z));
        polys.push(p);
        comms.push(comm);
        points.push(z);
        proofs.push(proof);
    }
    let n = polys.len();
    let sel = b.seeds[1];
    let pos = (sel % n as u64) as usize;
    let d: Fr = delta(sel >> 8);
    match c.mode % 3 {
        0 => {
            ctx.label("mode:mutated_proof");
            let (mp, desc) = mutate_kzg_proof(&proofs[pos], keys.vk.g, &c.ops);
            ctx.nontrivial = true;
            let r = guard(|| Kzg::check(&keys.vk, &comms[pos], points[pos], values[pos] + d, &mp));
            expect_reject(ctx, P, "kzg10", "check", "mutated_proof", &r, || desc.join("; "))?;
            let mut v2 = values.clone();
            v2[pos] += d;
            let mut p2 = proofs.clone();
            p2[pos] = mp;
            let r = guard(|| Kzg::batch_check(&keys.vk, &comms, &points, &v2, &p2, &mut rng(sel)));
            expect_reject(ctx, P, "kzg10", "batch_check", "mutated_proof", &r, || desc.join("; "))
        }
        1 => {
            // slices of unequal length: the false claim sits beyond the end of the shorter proof slice
            ctx.label("mode:short_proof_slice");
            if n < 2 {
                return Ok(());
            }
            let mut v2 = values.clone();
            v2[n - 1] += d;
            let keep = 1 + ((sel >> 12) as usize) % (n - 1);
            ctx.nontrivial = true;
            let r = guard(|| {
                Kzg::batch_check(&keys.vk, &comms, &points, &v2, &proofs[..keep], &mut rng(sel))
            });
            expect_reject(ctx, P, "kzg10", "batch_check", "short_proof_slice", &r, || {
                format!("{n} claims (last false), {keep} proofs")
            })
        }
        _ => {
            ctx.label("mode:proof_of_other_polynomial");
            if n < 2 {
                return Ok(());
            }
            let j = (pos + 1) % n;
            // proof of p_j opened at z_j presented for (C_pos, z_pos) with a false value
            let claim = values[pos] + d;
            ctx.nontrivial = true;
            let r = guard(|| Kzg::check(&keys.vk, &comms[pos], points[pos], claim, &proofs[j]));
            expect_reject(ctx, P, "kzg10", "check", "foreign_proof", &r, || format!("proof {j} for claim {pos}"))
        }
    }
}

#[derive(Clone, Debug, Serialize, Deserialize)]
pub struct MlC3 {
    pub base: MlCase,
    pub ops: Vec<OpRaw>,
}

fn check_ml(c: &MlC3, ctx: &mut CaseCtx) -> Result<(), Failure> {
    let b = &c.base;
    let Ok((_pp, ck, vk, _nv_max, nv)) = ml_keys(b.nv_max, b.nv, b.seed) else { return Ok(()) };
    let built = mle_from_raw(nv, &b.poly);
    let point: Vec<Fr> = b.point.to_vec(nv);
    let value = built.poly.evaluate(&point);
    let Out::Ok(comm) = guard_plain(|| MlPst::commit(&ck, &built.poly)) else { return Ok(()) };
    let Out::Ok(mut proof) = guard_plain(|| MlPst::open(&ck, &built.poly, &point)) else { return Ok(()) };
    let mut desc = Vec::new();
    for o in &c.ops {
        let n = proof.proofs.len().max(1);
        let i = (o.arg as usize) % n;
        match o.op % 6 {
            0 if !proof.proofs.is_empty() => {
                proof.proofs[i] = G2::rand(&mut rng(o.seed)).into_affine();
                desc.push(format!("quotient[{i}] := random"));
            }
            1 => {
                proof.proofs.pop();
                desc.push("last quotient dropped".to_string());
            }
            2 => {
                proof.proofs.push(G2::rand(&mut rng(o.seed)).into_affine());
                desc.push("random quotient appended".to_string());
            }
            3 => {
                proof.proofs.clear();
                desc.push("quotients emptied".to_string());
            }
            4 if proof.proofs.len() >= 2 => {
                let j = (i + 1) % proof.proofs.len();
                proof.proofs.swap(i, j);
                desc.push(format!("quotient[{i}] <-> quotient[{j}]"));
            }
            _ => {
                proof.proofs.reverse();
                desc.push("quotients reversed".to_string());
            }
        }
    }
    for l in &desc {
        let cls: String = l.chars().filter(|ch| !ch.is_ascii_digit()).collect();
        ctx.label(&format!("mut:{cls}"));
    }
    ctx.nontrivial = true;
    let r = guard_plain(|| MlPst::check(&vk, &comm, &point, value + delta::<Fr>(b.poly.seed), &proof));
    expect_reject(ctx, P, "mlpst", "check", "mutated_proof", &r, || desc.join("; "))
}

fn check_sk(c: &SkCase, ctx: &mut CaseCtx) -> Result<(), Failure> {
    let polys: Vec<Vec<Fr>> = c.polys.iter().map(|(l, s, k)| sk_poly(*l, *s, *k)).collect();
    let points = distinct_points(&c.points);
    let maxlen = polys.iter().map(|p| p.len()).max().unwrap();
    let key_deg = [0usize, 1, 2, 5, 17, 64][c.extra_key as usize] + (maxlen - 1).max(points.len());
    let key_deg = (key_deg + 15) / 16 * 16;
    let ck = sk_keys(key_deg, 8, c.seed);
    let vk = VerifierKey::from(&*ck);
    let sel = c.polys[0].1;
    let p0 = &polys[0];
    let alpha = points[0];
    let truth = horner(p0, alpha);
    let Out::Ok(tc) = guard_plain(|| ck.commit(p0)) else { return Ok(()) };
    let d: Fr = delta(sel);
    // proof made for another point
    if points.len() >= 2 {
        let Out::Ok((_e, pr)) = guard_plain(|| ck.open(p0, &points[1])) else { return Ok(()) };
        let claim = horner(p0, points[1]);
        if claim != truth {
            ctx.nontrivial = true;
            ctx.label("proof_of_other_point");
            let r = guard(|| vk.verify(&tc, &alpha, &claim, &pr).map(|_| true));
            expect_reject(ctx, P, "skzg", "verify", "replayed_point", &r, || "proof at point[1] used at point[0]".into())?;
        }
    }
    // proof of another polynomial
    if polys.len() >= 2 {
        let Out::Ok((e1, pr)) = guard_plain(|| ck.open(&polys[1], &alpha)) else { return Ok(()) };
        if e1 != truth {
            ctx.nontrivial = true;
            ctx.label("proof_of_other_polynomial");
            let r = guard(|| vk.verify(&tc, &alpha, &e1, &pr).map(|_| true));
            expect_reject(ctx, P, "skzg", "verify", "foreign_proof", &r, || "proof of p1 for commitment of p0".into())?;
        }
    }
    // random proof element with a false value
    let Out::Ok((_e, mut pr)) = guard_plain(|| ck.open(p0, &alpha)) else { return Ok(()) };
    pr.0 = G1::rand(&mut rng(sel ^ 5)).into_affine();
    let r = guard(|| vk.verify(&tc, &alpha, &(truth + d), &pr).map(|_| true));
    expect_reject(ctx, P, "skzg", "verify", "random_proof", &r, || "random proof element".into())?;
    let _ = (SK_BUFS, CommitterKeyStream::<E, &[G1A]>::as_committer_key);
    Ok(())
}

pub fn spec() -> PropertySpec {
    let mut units: Vec<Box<dyn Unit>> = Vec::new();
    macro_rules! add {
        ($s:ty, $q:expr, $t:expr, $sh:expr) => {
            units.push(PropUnit::new(
                format!("C03:{}:catalogue", <$s as Scheme>::NAME),
                $q,
                $t,
                $sh,
                |_| case().boxed(),
                |c: &Case, ctx: &mut CaseCtx| check_trait::<$s>(c, ctx),
            ));
        };
    }
    add!(Marlin, 300, 2400, 4);
    add!(Sonic, 300, 2400, 4);
    add!(Ipa, 300, 2400, 4);
    add!(Pst13, 300, 2400, 4);
    add!(Hyrax, 400, 3200, 4);
    add!(ULigero, 600, 4800, 4);
    add!(MLigero, 600, 4800, 4);
    add!(Brakedown, 500, 4000, 6);
    units.push(PropUnit::new(
        "C03:kzg10:catalogue",
        300,
        2400,
        2,
        |_| {
            (kzg_case(), proptest::collection::vec(op_raw(), 1..=2), 0u8..3)
                .prop_map(|(base, ops, mode)| KzgC3 { base, ops, mode })
                .boxed()
        },
        check_kzg,
    ));
    units.push(PropUnit::new(
        "C03:mlpst:catalogue",
        300,
        2400,
        2,
        |_| {
            (ml_case(), proptest::collection::vec(op_raw(), 1..=2))
                .prop_map(|(base, ops)| MlC3 { base, ops })
                .boxed()
        },
        check_ml,
    ));
    units.push(PropUnit::new("C03:skzg:catalogue", 200, 1600, 2, |_| sk_case().boxed(), check_sk));
    units.extend(super::c05::correlated_units("C03"));
    PropertySpec {
        id: "C03",
        rule: "(Also: batches whose claims or accumulated proof elements carry correlated errors - cancelling inside a label, across labels, weighted by the replayed opening challenges, +D/-D on two proofs - must not be accepted; the batch scenarios of C05 restricted to false acceptances, for Marlin, Sonic, IPA, PST13, KZG10::batch_check and streaming verify_multi_points.) Each case is an honest accepted transcript plus one attack: a program of 1-3 scheme-specific proof mutations (component replaced by a random valid element, IPA rounds added/removed/reordered, PST13/multilinear witness lists reshaped, Hyrax z stretched / proof vector reshaped / com_eval re-opened to a false value, Ligero-Brakedown v stretched-interleaved-shortened-shifted, well-formedness vector removed/stretched/shifted, columns and paths repeated/rotated/truncated/tampered, leaf indices rewritten - applied through mirror structs and re-serialised), or the library prover run on (q, state_q) against commitment(p), or a proof replayed from another point / another committed polynomial, or a reshaped batch proof list; always paired with a claimed value different from the true evaluation (when a mutation changes the opened vector v the claim is the value that vector implies). Oracle: not accepted. Vector mutations of the code-based schemes that keep honest columns are asserted only if agreement^t <= 2^-40 (toy_soundness_not_asserted otherwise). Non-trivial: the mutated proof is rejected by an algebraic check (Ok(false)) rather than a shape check, or would still be accepted for the true value; the other modes are always non-trivial.",
        assumptions: vec![
            "attacks are those of the catalogue and programs over it, not arbitrary adversaries",
            "claimed values are false by construction",
        ],
        units,
        watchdog_s: (1800, 7200),
    }
}
