//! C13 — linear-code proofs carry the column openings their security level needs.

use super::common::*;
use crate::engine::{CaseCtx, EnumUnit, Failure, PropUnit, PropertySpec, Tier, Unit};
use crate::lincode::{self, Lin, MProof};
use crate::model::{fraw_point, poly_raw, PolyRaw};
use crate::schemes::*;
use crate::types::*;
use crate::util::{accepted, guard, guard_plain, pick, rng, FRaw, Out};
use ark_ff::{PrimeField, UniformRand, Zero};
use ark_poly::{DenseUVPolynomial, Polynomial};
use ark_poly_commit::linear_codes::LinCodeParametersInfo;
use ark_poly_commit::{LabeledPolynomial, PolynomialCommitment};
use proptest::prelude::*;
use serde::{Deserialize, Serialize};
use serde_json::json;

const P: &str = "C13";
pub const RHOS: [usize; 5] = [2, 3, 4, 8, 16];

// ------------------------------------------------------------------------------------------------
// (a) t through compute_dimensions: exact thresholds
// ------------------------------------------------------------------------------------------------

#[derive(Clone, Debug, Serialize, Deserialize)]
pub struct TCase {
    pub lambda: usize,
    pub rho_inv: usize,
    /// the row count 2^k whose upper threshold is probed
    pub k: u32,
    /// extra offsets around the threshold (0 = exactly at it)
    pub off: u64,
}

fn isqrt_ceil(q: u128) -> u128 {
    // smallest s with s*s >= q
    let mut s = (q as f64).sqrt() as u128;
    while s * s < q {
        s += 1;
    }
    while s > 0 && (s - 1) * (s - 1) >= q {
        s -= 1;
    }
    s
}

/// The harness's own compute_dimensions for Ligero parameters, from the exact t.
fn ref_dims(lambda: usize, rho_inv: usize, len: usize) -> Option<(usize, usize)> {
    let len = len.max(1);
    let t = lincode::expected_t::<Fr>(lambda, (rho_inv - 1, rho_inv), len)?;
    if t == 0 {
        return None;
    }
    let q = (2 * len as u128 + t as u128 - 1) / t as u128;
    let s = isqrt_ceil(q);
    let n = (s.max(1) as u64).next_power_of_two() as usize;
    let m = (len + n - 1) / n;
    Some((n, m))
}

fn check_t(c: &TCase, ctx: &mut CaseCtx) -> Result<(), Failure> {
    let d = (c.rho_inv - 1, c.rho_inv);
    let params = LigeroParams::new(c.lambda, c.rho_inv, true, (), (), ());
    // threshold of the row count 2^k: rows(L) <= 2^k  <=>  2L <= t * 4^k
    let t0 = lincode::expected_t::<Fr>(c.lambda, d, 1 << 20);
    let len = match t0 {
        Some(t) => {
            let l = (t as u128 * (1u128 << (2 * c.k))) / 2;
            (l as u64 + c.off).max(1) as usize
        }
        None => 1usize << (10 + c.k),
    };
    if len as u128 > 1u128 << 41 {
        return Ok(());
    }
    let want = ref_dims(c.lambda, c.rho_inv, len);
    let got = guard_plain(|| params.compute_dimensions(len));
    let t_exact = lincode::expected_t::<Fr>(c.lambda, d, len);
    let t_approx = lincode::approx_t::<Fr>(c.lambda, d, len);
    ctx.label_if(t_exact.map(|t| t < len).unwrap_or(false), "uncapped_t");
    ctx.nontrivial_if(t_exact.map(|t| t < len).unwrap_or(false));
    ctx.label_if(t_exact.is_none(), "unusable_parameters");
    ctx.derived = Some(json!({"lambda": c.lambda, "rho_inv": c.rho_inv, "k": c.k, "length": len, "t_exact": t_exact, "expected_dims": want}));
    let approx_explains = t_exact != t_approx;
    match (&got, want) {
        (Out::Ok(g), Some(w)) => {
            let class = if approx_explains { "field_size_approximation" } else { "wrong_t" };
            ctx.check(*g == w, sig(P, "ligero", "compute_dimensions", class), || {
                format!("lambda {}, rho_inv {}, length {len}: dimensions {:?}, exact t = {:?} gives {:?} (t under the 2^bits approximation: {:?})", c.lambda, c.rho_inv, g, t_exact, w, t_approx)
            })
        }
        (Out::Ok(g), None) => {
            let class = if t_approx.is_some() { "field_size_approximation" } else { "unusable_parameters_served" };
            ctx.fail(sig(P, "ligero", "compute_dimensions", class), format!("lambda {}, rho_inv {}, length {len}: no t satisfies the bound with |F| but dimensions {:?} were returned", c.lambda, c.rho_inv, g))
        }
        (_, Some(w)) => ctx.fail(sig(P, "ligero", "compute_dimensions", "usable_parameters_refused"), format!("lambda {}, rho_inv {}, length {len}: {} (expected {:?})", c.lambda, c.rho_inv, got.describe(), w)),
        (_, None) => {
            ctx.asserts += 1;
            Ok(())
        }
    }
}

// ------------------------------------------------------------------------------------------------
// (b) honest proofs: number and positions of opened columns
// ------------------------------------------------------------------------------------------------

#[derive(Clone, Debug, Serialize, Deserialize)]
pub struct PCase {
    pub lambda: u16,
    pub rho: u8,
    pub wf: bool,
    pub size: u16,
    pub poly: PolyRaw,
    pub point: FRaw,
    pub pre: u64,
}

pub fn pcase() -> impl Strategy<Value = PCase> {
    (
        prop_oneof![3 => 1u16..=40, 3 => 1u16..=256, 1 => Just(128u16)],
        0u8..5,
        any::<bool>(),
        any::<u16>(),
        poly_raw(),
        fraw_point(),
        prop_oneof![1 => Just(0u64), 1 => any::<u64>()],
    )
        .prop_map(|(lambda, rho, wf, size, poly, point, pre)| PCase { lambda, rho, wf, size, poly, point, pre })
}

fn check_proof_generic<S: Lin>(
    keys: &Keys<S>,
    poly: S::P,
    point: S::Pt,
    pre: u64,
    lambda: usize,
    rs_rho_inv: Option<usize>,
    ctx: &mut CaseCtx,
) -> Result<(), Failure> {
    // the relative distance the soundness bound is evaluated with: derived from the parameter fields by
    // the harness; the library's own `distance()` must be that number
    let dist = S::ref_distance(&keys.ck).map_err(|e| Failure { sig: sig(P, S::NAME, "params", "mirror"), msg: e })?;
    let lib_d = S::distance(&keys.ck);
    ctx.check(lib_d.0 as u128 * dist.1 as u128 == dist.0 as u128 * lib_d.1 as u128, sig(P, S::NAME, "params", "wrong_relative_distance"), || {
        format!("distance() reports {}/{} but the code's relative distance is {}/{}", lib_d.0, lib_d.1, dist.0, dist.1)
    })?;
    let lp = LabeledPolynomial::new("p".into(), poly.clone(), None, None);
    let mut r = rng(1);
    let (cm, st) = match guard(|| S::PC::commit(&keys.ck, [&lp], Some(&mut r))) {
        Out::Ok((c, s)) => (c, s),
        Out::Err(e) | Out::Abort(e) => {
            // unusable parameter combinations must be refused; usable ones must be served
            let n_guess = lincode::poly_vec::<S>(&poly).len().max(1);
            let usable = lincode::expected_t::<Fr>(lambda, dist, n_guess).is_some();
            ctx.label("commit_refused");
            return ctx.check(!usable, sig(P, S::NAME, "commit", "usable_parameters_refused"), || format!("lambda {lambda}: {e}"));
        }
    };
    let mc = lincode::comm_mirror::<S>(&cm[0]).map_err(|e| Failure { sig: sig(P, S::NAME, "commit", "mirror"), msg: e })?;
    let n_ext = mc.metadata.n_ext_cols;
    // Reed-Solomon rows: the declared output length is the size of the smallest radix-2 domain holding
    // n_cols * rho_inv points, for every row length (one-entry rows included)
    if let Some(rho) = rs_rho_inv {
        let declared = (mc.metadata.n_cols * rho).next_power_of_two();
        ctx.label_if(mc.metadata.n_cols == 1, "one_column_matrix");
        ctx.check(n_ext == declared, sig(P, S::NAME, "commit", "codeword_length_not_the_declared_one"), || {
            format!("rows of {} entries at inverse rate {rho} are encoded to {n_ext} symbols, the code declares {declared}", mc.metadata.n_cols)
        })?;
    }
    let want = lincode::expected_t::<Fr>(lambda, dist, n_ext);
    let approx = lincode::approx_t::<Fr>(lambda, dist, n_ext);
    let mut sp = sponge::<Fr>(pre);
    let mut r2 = rng(2);
    let proof = guard(|| S::PC::open(&keys.ck, [&lp], &cm, &point, &mut sp, &st, Some(&mut r2)));
    let proof = match (proof, want) {
        (Out::Ok(p), Some(_)) => p,
        (Out::Ok(_), None) => {
            let class = if approx.is_some() { "field_size_approximation" } else { "unusable_parameters_served" };
            return ctx.fail(sig(P, S::NAME, "open", class), format!("lambda {lambda}, n_ext {n_ext}: no admissible t but a proof was produced"));
        }
        (o, Some(t)) => return ctx.fail(sig(P, S::NAME, "open", "usable_parameters_refused"), format!("lambda {lambda}, n_ext {n_ext}, t {t}: {}", o.describe_nodebug())),
        (_, None) => {
            ctx.label("unusable_parameters_refused");
            return Ok(());
        }
    };
    let t = want.unwrap();
    let mp: Vec<MProof> = lincode::proofs_mirror::<S>(&proof).map_err(|e| Failure { sig: sig(P, S::NAME, "open", "mirror"), msg: e })?;
    ctx.label_if(t < n_ext, "uncapped_t");
    ctx.label_if(t == n_ext, "capped_t");
    ctx.nontrivial_if(t < n_ext);
    ctx.derived = Some(json!({"scheme": S::NAME, "lambda": lambda, "distance": dist, "n_rows": mc.metadata.n_rows, "n_cols": mc.metadata.n_cols, "n_ext_cols": n_ext, "t_expected": t, "columns": mp[0].opening.columns.len()}));
    let class = if approx != want { "field_size_approximation" } else { "wrong_number_of_columns" };
    ctx.check(mp.len() == 1 && mp[0].opening.columns.len() == t && mp[0].opening.paths.len() == t, sig(P, S::NAME, "open", class), || {
        format!("lambda {lambda}, distance {:?}, n_ext {n_ext}: proof opens {} columns / {} paths, the bound needs exactly t = {t}", dist, mp[0].opening.columns.len(), mp[0].opening.paths.len())
    })?;
    // positions: inside the codeword, equal to the harness's own transcript-derived indices, authenticated
    ctx.check(mp[0].opening.paths.iter().all(|p| p.leaf_index < n_ext), sig(P, S::NAME, "open", "position_outside_codeword"), || "a leaf index is outside the codeword".into())?;
    let value = poly.evaluate(&point);
    let dec = lincode::ref_check::<S>(&keys.vk, &[mc.clone()], &point, &[value], &mp, &mut sponge::<Fr>(pre));
    ctx.check(dec.accepted(), sig(P, S::NAME, "open", "positions_not_transcript_derived"), || format!("reference verifier (own index derivation, Merkle authentication, column checks): {dec:?}"))?;
    let mut sp = sponge::<Fr>(pre);
    let lib = guard(|| S::PC::check(&keys.vk, &cm, &point, [value], &proof, &mut sp, None));
    ctx.check(accepted(&lib), sig(P, S::NAME, "check", "honest_rejected"), || lib.describe())?;
    // (b') the verifier insists on all t authenticated columns: the honest proof (true value) with
    // authentication paths and/or columns removed must not be accepted
    {
        let lib_ok = guard(|| S::PC::check(&keys.vk, &cm, &point, [value], &proof, &mut sponge::<Fr>(pre), None));
        if crate::util::accepted(&lib_ok) && t >= 1 {
            let keeps: Vec<usize> = {
                let mut k = vec![0usize, t - 1, t / 2, (pre as usize) % t];
                k.sort();
                k.dedup();
                k
            };
            for keep in keeps {
                for what in ["paths", "columns+paths", "columns"] {
                    let mut m = mp.clone();
                    if what != "columns" {
                        m[0].opening.paths.truncate(keep);
                    }
                    if what != "paths" {
                        m[0].opening.columns.truncate(keep);
                    }
                    let Ok(pr) = lincode::proofs_unmirror::<S>(&m) else { continue };
                    let r = guard(|| S::PC::check(&keys.vk, &cm, &point, [value], &pr, &mut sponge::<Fr>(pre), None));
                    ctx.check(!crate::util::accepted(&r), sig(P, S::NAME, "check", "fewer_than_t_authenticated_columns_accepted"), || {
                        format!("t = {t}: a proof keeping only {keep} {what} was accepted")
                    })?;
                }
            }
            ctx.label("verifier_requires_t_columns_checked");
        }
    }
    // (b'') the verifier insists on the transcript's positions: the honest proof with one or all of its
    // (column, path) pairs replaced by the authentic pair of ANOTHER position of the codeword must not be
    // accepted, even where the replacement column is consistent with the opened vectors (equal entries of
    // the encoded vectors at both positions - always so for the zero polynomial, for all positions of a
    // constant polynomial under a Reed-Solomon code)
    if t >= 1 && n_ext >= 2 {
        if let (Ok((_nr, _nc, _rows, ext)), Out::Ok(ev)) = (lincode::ref_matrices::<S>(&keys.ck, &poly), lincode::encode::<S>(&keys.ck, &mp[0].opening.v)) {
            let cols = lincode::columns_of(&ext);
            let leaves: Vec<Vec<u8>> = cols.iter().map(|c| lincode::col_hash(c)).collect();
            let ewf = mp[0].well_formedness.as_ref().and_then(|w| match lincode::encode::<S>(&keys.ck, w) {
                Out::Ok(e) => Some(e),
                _ => None,
            });
            let twin = |q: usize| -> (usize, bool) {
                let same = |a: usize| ev[a] == ev[q] && ewf.as_ref().map(|e| e[a] == e[q]).unwrap_or(true) && cols[a] == cols[q];
                match (1..n_ext).map(|d| (q + d) % n_ext).find(|a| same(*a)) {
                    Some(a) => (a, true),
                    None => ((q + 1 + (pre as usize) % (n_ext - 1)) % n_ext, false),
                }
            };
            if cols.len() == n_ext && ev.len() == n_ext {
                for all in [false, true] {
                    let mut m = mp.clone();
                    let mut consistent = true;
                    let js: Vec<usize> = if all { (0..t).collect() } else { vec![(pre as usize >> 8) % t] };
                    for j in js {
                        let (a, same) = twin(m[0].opening.paths[j].leaf_index);
                        consistent &= same;
                        m[0].opening.columns[j] = cols[a].clone();
                        m[0].opening.paths[j] = lincode::ref_path(&leaves, a);
                    }
                    ctx.label_if(consistent, "moved_columns_consistent_with_the_opened_vectors");
                    let Ok(pr) = lincode::proofs_unmirror::<S>(&m) else { continue };
                    let r = guard(|| S::PC::check(&keys.vk, &cm, &point, [value], &pr, &mut sponge::<Fr>(pre), None));
                    ctx.check(!crate::util::accepted(&r), sig(P, S::NAME, "check", "columns_at_other_positions_accepted"), || {
                        format!("t = {t}, n_ext = {n_ext}: a proof whose {} authenticated column(s) sit at positions other than the transcript's was accepted", if all { "t" } else { "one" })
                    })?;
                }
                ctx.label("verifier_requires_transcript_positions_checked");
            }
        }
    }
    // (c) the row encoding is linear and has the declared length
    let n_cols = mc.metadata.n_cols;
    let mut g = rng(pre ^ 0x5a);
    let x: Vec<Fr> = (0..n_cols).map(|_| Fr::rand(&mut g)).collect();
    let y: Vec<Fr> = (0..n_cols).map(|i| if i % 3 == 0 { Fr::zero() } else { Fr::rand(&mut g) }).collect();
    let (a, b) = (Fr::rand(&mut g), Fr::rand(&mut g));
    let z: Vec<Fr> = x.iter().zip(&y).map(|(p, q)| a * p + b * q).collect();
    if let (Out::Ok(ex), Out::Ok(ey), Out::Ok(ez)) = (lincode::encode::<S>(&keys.ck, &x), lincode::encode::<S>(&keys.ck, &y), lincode::encode::<S>(&keys.ck, &z)) {
        ctx.check(ex.len() == n_ext && ey.len() == n_ext && ez.len() == n_ext, sig(P, S::NAME, "encode", "length"), || format!("|E(x)| = {} but the commitment declares {n_ext} columns", ex.len()))?;
        ctx.check(ez.iter().zip(ex.iter().zip(&ey)).all(|(w, (u, v))| *w == a * u + b * v), sig(P, S::NAME, "encode", "not_linear"), || "E(a x + b y) != a E(x) + b E(y)".into())?;
        ctx.label_if(!n_cols.is_power_of_two(), "non_power_of_two_message");
        ctx.nontrivial_if(!n_cols.is_power_of_two());
    } else {
        return ctx.fail(sig(P, S::NAME, "encode", "refused"), format!("encode refused a message of the row length {n_cols}"));
    }
    Ok(())
}

fn keys_from<S: Scheme>(pp: Up<S>, desc: serde_json::Value, nv: usize) -> Result<Keys<S>, String> {
    let (ck, vk) = guard(|| S::PC::trim(&pp, 0, 0, None)).need("trim")?;
    Ok(Keys {
        pp: std::sync::Arc::new(pp),
        ck,
        vk,
        info: KeyInfo { max_degree: 1, supported: 1, enforced: None, requested_bounds: None, any_bound: false, hiding: 0, num_vars: nv, desc },
    })
}

fn check_uligero(c: &PCase, ctx: &mut CaseCtx) -> Result<(), Failure> {
    let lambda = c.lambda as usize;
    let rho = RHOS[c.rho as usize % 5];
    let cap = if current_tier().is_quick() { 2500 } else { 20000 };
    let deg = pick(c.size, cap);
    let pp = LigeroParams::new(lambda, rho, c.wf, (), (), ());
    let Ok(keys) = keys_from::<ULigero>(pp, json!({"lambda": lambda, "rho_inv": rho, "wf": c.wf}), 1) else { return Ok(()) };
    let mut info = keys.info.clone();
    info.supported = deg;
    let poly = ULigero::poly(&info, &c.poly).poly;
    ctx.label(&format!("rho_inv:{rho}"));
    check_proof_generic::<ULigero>(&keys, poly, c.point.to_f(), c.pre, lambda, Some(rho), ctx)
}

fn check_mligero(c: &PCase, ctx: &mut CaseCtx) -> Result<(), Failure> {
    let lambda = c.lambda as usize;
    let rho = RHOS[c.rho as usize % 5];
    let nv = 1 + pick(c.size, if current_tier().is_quick() { 11 } else { 13 });
    let pp = LigeroParams::new(lambda, rho, c.wf, (), (), ());
    let Ok(keys) = keys_from::<MLigero>(pp, json!({"lambda": lambda, "rho_inv": rho, "wf": c.wf, "num_vars": nv}), nv) else { return Ok(()) };
    let poly = mle_from_raw(nv, &c.poly).poly;
    ctx.label(&format!("rho_inv:{rho}"));
    check_proof_generic::<MLigero>(&keys, poly, c.point.to_vec(nv), c.pre, lambda, Some(rho), ctx)
}

fn check_brakedown(c: &PCase, ctx: &mut CaseCtx) -> Result<(), Failure> {
    let nv = 1 + pick(c.size, if current_tier().is_quick() { 10 } else { 12 });
    let seed = (c.rho % 4) as u64;
    let Ok(pp): Result<std::sync::Arc<BrakedownParams>, String> = memo(format!("brakedown13:{}:{}:{}", nv, c.wf, seed), || {
        guard_plain(|| BrakedownParams::default(&mut rng(0xbd + seed), 1 << nv, c.wf, (), (), ())).need("setup")
    }) else { return Ok(()) };
    let Ok(keys) = keys_from::<Brakedown>((*pp).clone(), json!({"num_vars": nv, "wf": c.wf}), nv) else { return Ok(()) };
    let poly = mle_from_raw(nv, &c.poly).poly;
    check_proof_generic::<Brakedown>(&keys, poly, c.point.to_vec(nv), c.pre, 128, None, ctx)
}

#[derive(Clone, Debug, Serialize, Deserialize)]
pub struct GuardCase {
    pub rho_inv: usize,
    pub multilinear: bool,
}

/// Ligero's field-size rule: parameters whose inverse rate exceeds the field's two-adicity (32 for the
/// scalar field used here) are unusable and must be refused by trim; the others are served and report the
/// capacity 4^(two_adicity - rho_inv) (saturating).
fn check_field_guard(c: &GuardCase, ctx: &mut CaseCtx) -> Result<(), Failure> {
    use ark_ff::FftField;
    use ark_poly_commit::PCUniversalParams;
    let two_adicity = <Fr as FftField>::TWO_ADICITY as usize;
    let usable = c.rho_inv <= two_adicity;
    ctx.nontrivial_if(c.rho_inv.abs_diff(two_adicity) <= 2 || !usable);
    ctx.label(if usable { "usable" } else { "unusable_parameters" });
    let pp = LigeroParams::new(128, c.rho_inv, true, (), (), ());
    // 0 = keys, 1 = Err, 2 = abort
    let outcome = |o: &Out<()>| match o {
        Out::Ok(_) => 0,
        Out::Err(_) => 1,
        Out::Abort(_) => 2,
    };
    let o = if c.multilinear { guard(|| MLigeroPC::trim(&pp, 0, 0, None).map(|_| ())) } else { guard(|| ULigeroPC::trim(&pp, 0, 0, None).map(|_| ())) };
    let served = outcome(&o) == 0;
    ctx.check(served == usable, sig(P, "ligero", "trim", if served { "unusable_parameters_served" } else { "usable_parameters_refused" }), || {
        format!("rho_inv = {}, two-adicity {two_adicity}: trim {}", c.rho_inv, if served { "returned keys" } else { "refused" })
    })?;
    // this rule is *reported as an error* (InvalidParameters) on this tree, not left to an arithmetic abort
    ctx.check(usable || outcome(&o) == 1, sig(P, "ligero", "trim", "unusable_parameters_abort_instead_of_error"), || {
        format!("rho_inv = {}, two-adicity {two_adicity}: trim {}", c.rho_inv, o.describe())
    })?;
    if usable {
        let e = (two_adicity - c.rho_inv) * 2;
        let want = if e < 64 { 1usize << e } else { usize::MAX };
        let got = guard_plain(|| PCUniversalParams::max_degree(&pp));
        ctx.check(matches!(got, Out::Ok(x) if x == want), sig(P, "ligero", "params", "max_degree_report"), || format!("rho_inv = {}: max_degree() = {}, expected {want}", c.rho_inv, got.describe()))?;
    }
    Ok(())
}

pub fn spec() -> PropertySpec {
    let mut units: Vec<Box<dyn Unit>> = Vec::new();
    units.push(EnumUnit::new(
        "C13:ligero:field-size-guard",
        2,
        |_tier: Tier, _seed: u64| {
            let mut v = Vec::new();
            for r in (2..=40usize).chain([48, 63, 64, 65, 100, 128, 1000, 1 << 20]) {
                for multilinear in [false, true] {
                    v.push(GuardCase { rho_inv: r, multilinear });
                }
            }
            v
        },
        check_field_guard,
    ));
    units.push(EnumUnit::new(
        "C13:ligero:t-thresholds",
        8,
        |tier: Tier, seed: u64| {
            let mut v = Vec::new();
            let mut g = rng(seed);
            use rand_core::RngCore;
            for lambda in 1..=256usize {
                for rho_inv in RHOS {
                    // thresholds of three row counts per (lambda, rate): both sides of each
                    let ks: Vec<u32> = if tier.is_quick() { vec![1, 4, 8] } else { (1..=12).collect() };
                    for k in ks {
                        for off in [0u64, 1] {
                            v.push(TCase { lambda, rho_inv, k, off });
                        }
                        if !tier.is_quick() {
                            v.push(TCase { lambda, rho_inv, k, off: 2 + g.next_u64() % 1000 });
                        }
                    }
                }
            }
            v
        },
        check_t,
    ));
    units.push(PropUnit::new("C13:uligero:proof-columns", 250, 2500, 4, |_| pcase().boxed(), check_uligero));
    units.push(PropUnit::new("C13:mligero:proof-columns", 250, 2500, 4, |_| pcase().boxed(), check_mligero));
    units.push(PropUnit::new("C13:brakedown:proof-columns", 120, 1200, 4, |_| pcase().boxed(), check_brakedown));
    PropertySpec {
        id: "C13",
        rule: "(a) For every lambda in 1..=256 and rate 1/rho_inv, rho_inv in {2,3,4,8,16}: the exact t (smallest t with 2(1-d/2)^t + n/|F| <= 2^-lambda, big-integer arithmetic, capped at n) fixes the polynomial length L_k = t*4^k/2 at which Ligero's compute_dimensions must switch from 2^k to 2^(k+1) rows; the library's public compute_dimensions is compared with the harness's own (exact t, integer square root) at L_k and L_k+1 for k in {1,4,8} (thorough: k = 1..12 plus random offsets), lengths up to 2^41, so a t that is off by one at any lambda/rate changes a row count; combinations for which no t exists must abort. (b) Generated honest proofs (univariate Ligero up to degree 2500, multilinear Ligero up to 11 variables, lambda in 1..=256, five rates, with/without well-formedness; Brakedown default parameters up to 10 variables): |columns| = |paths| = exact t for the codeword length in the commitment metadata, every leaf index inside the codeword, and the harness's reference verifier (own Fiat-Shamir index derivation: ceil(bits(n)/8) bytes squeezed, re-absorbed, reduced mod n; by-hand Merkle authentication; column checks) accepts. (a') Ligero's field-size rule, enumerated for rho_inv in 2..=40 and a few larger values, univariate and multilinear: trim serves exactly the parameters with rho_inv <= two-adicity of the field and reports the capacity 4^(two_adicity - rho_inv). (b') the library verifier rejects the honest proof once authentication paths, columns or both are cut to 0, t/2, t-1 or a generated count below t, and once one or all (column, path) pairs are replaced by the authentic pair of another codeword position (a position where the encoded opened vectors agree, where one exists). (c) E(a x + b y) = a E(x) + b E(y) on random and sparse messages of the row length, |E(x)| = declared n_ext_cols, and for the Reed-Solomon rows of Ligero n_ext_cols = next_power_of_two(n_cols * rho_inv) for every row length (one-entry rows of zero / constant / tiny polynomials included). Non-trivial: t below the codeword length (uncapped), or a message whose length is not a power of two.",
        assumptions: vec![
            "calculate_t is reached only through the public surface (compute_dimensions, proofs)",
            "a disagreement explained only by the library using 2^MODULUS_BIT_SIZE for |F| gets its own signature (field_size_approximation)",
        ],
        units,
        watchdog_s: (1500, 7200),
    }
}

#[allow(dead_code)]
fn _q<F: PrimeField>(_: F, _: UniPoly) -> usize {
    UniPoly::from_coefficients_vec(vec![]).degree()
}
