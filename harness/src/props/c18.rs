//! C18 — results do not depend on thread count or on the `parallel` feature.
//!
//! The binary's `digest` mode prints one SHA-256 per scenario over the canonical serialization of every
//! output; the C18 driver runs it as child processes under different RAYON_NUM_THREADS values and with the
//! harness built against `ark-poly-commit` without its `parallel` feature, and compares line by line.

use super::common::*;
use crate::engine::{CaseCtx, Failure, KnownFindings, RunCfg, Tier, Unit, UnitReport};
use crate::model::{scn, Scn};
use crate::schemes::*;
use crate::session::Session;
use crate::util::{accepted, fnv64, hex, mix_seed, ser, Out};
use proptest::strategy::{Strategy, ValueTree};
use proptest::test_runner::{Config, RngAlgorithm, TestRng, TestRunner};
use serde_json::{json, Value};
use sha2::{Digest, Sha256};
use std::process::Command;

const P: &str = "C18";
pub fn nopar_bin() -> String {
    format!("{}/harness/target-nopar/release/pcverif", crate::engine::verif_dir())
}

/// SHA-256 over every deterministic output of a scenario.
pub fn digest_scn<S: Scheme>(c: &Scn, tier: Tier) -> String {
    let mut h = Sha256::new();
    let sess = match Session::<S>::build(c, tier) {
        Ok(s) => s,
        Err(e) => {
            // refusals are outputs too (only their kind: messages may legitimately mention sizes)
            return format!("build-refused:{}", e.split(':').next().unwrap_or(""));
        }
    };
    h.update(ser(&*sess.keys.pp));
    h.update(ser(&sess.keys.ck));
    h.update(ser(&sess.keys.vk));
    for i in 0..sess.n() {
        h.update(ser(sess.comms[i].commitment()));
        h.update(ser(&sess.states[i]));
    }
    for g in &sess.groups {
        let order = sess.group_order(g);
        match sess.open_idx(&order, &g.point, &mut sess.sponge(), sess.seeds[1]) {
            Out::Ok(p) => {
                h.update(S::proof_bytes(&p, true));
                let vals: Vec<S::F> = order.iter().map(|i| sess.true_value(*i, &g.point)).collect();
                let r = sess.check_idx(&order, &g.point, vals, &p, &mut sess.sponge(), sess.seeds[2]);
                h.update([accepted(&r) as u8]);
            }
            o => h.update(o.kind().as_bytes()),
        }
    }
    let qs = sess.query_set();
    match sess.batch_open(&qs, &mut sess.sponge(), sess.seeds[1]) {
        Out::Ok(bp) => {
            h.update(ser(&bp));
            let r = sess.batch_check(sess.verifier_comms(), &qs, &sess.evaluations(), &bp, &mut sess.sponge(), sess.seeds[2]);
            h.update([accepted(&r) as u8]);
        }
        o => h.update(o.kind().as_bytes()),
    }
    // combination openings: per point label one equation over its polynomials with several constant
    // terms and a repeated label (degree-bounded polynomials alone, coefficient one - the admissible shape)
    {
        use ark_poly_commit::{LCTerm, LinearCombination};
        use ark_ff::UniformRand;
        let mut lcs = Vec::new();
        let mut qs = std::collections::BTreeSet::new();
        let mut evals = std::collections::BTreeMap::new();
        let mut g0 = crate::util::rng(sess.seeds[0] ^ 0xc18);
        for (k, g) in sess.groups.iter().enumerate() {
            let free: Vec<usize> = g.polys.iter().cloned().filter(|i| sess.meta[*i].bound.is_none()).collect();
            let mut terms: Vec<(S::F, LCTerm)> = Vec::new();
            let mut value = S::F::from(0u64);
            if free.is_empty() {
                let i = g.polys[0];
                terms.push((S::F::from(1u64), LCTerm::PolyLabel(sess.polys[i].label().clone())));
                value += sess.true_value(i, &g.point);
            } else {
                for (n, i) in free.iter().chain(free.first()).enumerate() {
                    let c = S::F::rand(&mut g0);
                    terms.push((c, LCTerm::PolyLabel(sess.polys[*i].label().clone())));
                    value += c * sess.true_value(*i, &g.point);
                    // constants between the polynomial terms: +a, -b, +c ...
                    let a = S::F::rand(&mut g0);
                    let a = if n % 2 == 0 { a } else { -a };
                    terms.push((a, LCTerm::One));
                    value += a;
                }
                let a = S::F::rand(&mut g0);
                terms.push((a, LCTerm::One));
                value += a;
            }
            let name = format!("lc{k}");
            lcs.push(LinearCombination::new(name.clone(), terms));
            qs.insert((name.clone(), (g.label.clone(), g.point.clone())));
            evals.insert((name, g.point.clone()), value);
        }
        match super::c06::open_comb::<S>(&sess, &lcs, &qs) {
            Out::Ok(p) => {
                h.update(ser(&p));
                let r = super::c06::check_comb::<S>(&sess, &lcs, sess.verifier_comms(), &qs, &evals, &p);
                h.update([accepted(&r) as u8, matches!(r, Out::Ok(_)) as u8]);
            }
            o => h.update(o.kind().as_bytes()),
        }
    }
    hex(&h.finalize())
}

/// Code-based schemes: the decision on one crafted proof joins the digest. The Fiat-Shamir positions are
/// drawn with replacement; where a position occurs twice, the LATER occurrence's column is altered by a
/// vector orthogonal to the verifier's row combination vectors (so only its authentication can refuse
/// it). A verifier that authenticates every opened column refuses whatever the schedule; one that
/// authenticates each distinct position once, first come first served, decides by thread timing.
pub fn crafted_lin<S: crate::lincode::Lin>(c: &Scn, tier: Tier) -> String {
    use crate::lincode::{self, MProof};
    use ark_crypto_primitives::sponge::CryptographicSponge;
    use ark_ff::Zero;
    use ark_poly_commit::PolynomialCommitment;
    let Ok(sess) = Session::<S>::build(c, tier) else { return "-".into() };
    let g = &sess.groups[0];
    let i = g.polys[0];
    let Out::Ok(proof) = sess.open_idx(&[i], &g.point, &mut sess.sponge(), sess.seeds[1]) else { return "-".into() };
    let Ok(mut mp): Result<Vec<MProof>, _> = lincode::proofs_mirror::<S>(&proof) else { return "-".into() };
    let Ok((n_rows, n_cols, _rows, ext)) = lincode::ref_matrices::<S>(&sess.keys.ck, sess.polys[i].polynomial()) else { return "-".into() };
    let pos: Vec<usize> = mp[0].opening.paths.iter().map(|p| p.leaf_index).collect();
    let Some(j2) = (1..pos.len()).find(|j| pos[..*j].contains(&pos[*j])) else { return "no-repeated-position".into() };
    let cols = lincode::columns_of(&ext);
    let leaves: Vec<Vec<u8>> = cols.iter().map(|c| lincode::col_hash(c)).collect();
    let root = lincode::ref_root(&leaves);
    let mut sp = sess.sponge();
    sp.absorb(&ser(&root));
    let wf = S::wf(&sess.keys.ck);
    let r: Vec<crate::types::Fr> = if wf { sp.squeeze_field_elements(n_rows) } else { vec![] };
    let (_a, b) = lincode::tensor::<S>(&g.point, n_cols, n_rows);
    let mut delta = vec![crate::types::Fr::zero(); n_rows];
    if wf {
        if n_rows < 3 {
            return "too-few-rows".into();
        }
        delta[0] = b[1] * r[2] - b[2] * r[1];
        delta[1] = b[2] * r[0] - b[0] * r[2];
        delta[2] = b[0] * r[1] - b[1] * r[0];
    } else {
        if n_rows < 2 {
            return "too-few-rows".into();
        }
        delta[0] = b[1];
        delta[1] = -b[0];
    }
    if delta.iter().all(|d| d.is_zero()) {
        return "degenerate".into();
    }
    for (x, d) in mp[0].opening.columns[j2].iter_mut().zip(&delta) {
        *x += *d;
    }
    let Ok(pr) = lincode::proofs_unmirror::<S>(&mp) else { return "-".into() };
    let v = sess.true_value(i, &g.point);
    let r = crate::util::guard(|| S::PC::check(&sess.keys.vk, [&sess.comms[i]], &g.point, [v], &pr, &mut sess.sponge(), None));
    format!("altered-later-occurrence:{}", if accepted(&r) { "accepted" } else { "refused" })
}

pub fn digest_by_name(scheme: &str, c: &Scn, tier: Tier) -> Option<String> {
    match scheme {
        "uligero" => return Some(format!("{}+{}", digest_scn::<ULigero>(c, tier), crafted_lin::<ULigero>(c, tier))),
        "mligero" => return Some(format!("{}+{}", digest_scn::<MLigero>(c, tier), crafted_lin::<MLigero>(c, tier))),
        "brakedown" => return Some(format!("{}+{}", digest_scn::<Brakedown>(c, tier), crafted_lin::<Brakedown>(c, tier))),
        _ => {}
    }
    Some(match scheme {
        "marlin" => digest_scn::<Marlin>(c, tier),
        "sonic" => digest_scn::<Sonic>(c, tier),
        "ipa" => digest_scn::<Ipa>(c, tier),
        "pst13" => digest_scn::<Pst13>(c, tier),
        "hyrax" => digest_scn::<Hyrax>(c, tier),
        "uligero" => digest_scn::<ULigero>(c, tier),
        "mligero" => digest_scn::<MLigero>(c, tier),
        "brakedown" => digest_scn::<Brakedown>(c, tier),
        _ => return None,
    })
}

/// `pcverif digest <scheme> <tier> <file>`: one line per scenario of the JSON list in <file>
pub fn digest_main(scheme: &str, tier: &str, file: &str) -> i32 {
    let tier = if tier == "thorough" { Tier::Thorough } else { Tier::Quick };
    set_tier(tier);
    let Ok(text) = std::fs::read_to_string(file) else { return 2 };
    let Ok(list) = serde_json::from_str::<Vec<Scn>>(&text) else { return 2 };
    for (i, c) in list.iter().enumerate() {
        match digest_by_name(scheme, c, tier) {
            Some(d) => println!("{i} {d}"),
            None => return 2,
        }
    }
    0
}

fn scenarios(seed: u64, n: usize) -> Vec<Scn> {
    let mut bytes = [0u8; 32];
    for i in 0..4 {
        bytes[i * 8..(i + 1) * 8].copy_from_slice(&mix_seed(seed, &[&format!("c18-{i}")]).to_le_bytes());
    }
    let mut runner = TestRunner::new_with_rng(Config::default(), TestRng::from_seed(RngAlgorithm::ChaCha, &bytes));
    let strat = scn(4);
    (0..n).map(|_| strat.new_tree(&mut runner).unwrap().current()).collect()
}

#[derive(Clone, Debug)]
struct Cfg {
    name: String,
    bin: String,
    threads: usize,
}

fn configs() -> Vec<Cfg> {
    let me = std::env::current_exe().map(|p| p.display().to_string()).unwrap_or_else(|_| format!("{}/harness/target/release/pcverif", crate::engine::verif_dir()));
    let mut v: Vec<Cfg> = [1usize, 2, 3, 8, 16, 16, 16].iter().enumerate().map(|(i, t)| Cfg { name: format!("parallel/{t}-threads#{i}"), bin: me.clone(), threads: *t }).collect();
    v.push(Cfg { name: "no-parallel-feature".into(), bin: nopar_bin(), threads: 1 });
    v
}

fn run_cfg(cfg: &Cfg, scheme: &str, tier: Tier, file: &str) -> Result<Vec<String>, String> {
    let out = Command::new(&cfg.bin)
        .args(["digest", scheme, tier.name(), file])
        .env("RAYON_NUM_THREADS", cfg.threads.to_string())
        .output()
        .map_err(|e| format!("cannot run {}: {e}", cfg.bin))?;
    if !out.status.success() {
        return Err(format!("{} exited with {:?}", cfg.name, out.status.code()));
    }
    Ok(String::from_utf8_lossy(&out.stdout).lines().map(|l| l.to_string()).collect())
}

pub struct DiffUnit {
    pub scheme: &'static str,
    pub quick: usize,
    pub thorough: usize,
}

fn crosses_parallel_loop(c: &Scn) -> bool {
    c.polys.len() >= 2 || c.key.a > 20000
}

impl DiffUnit {
    fn compare(&self, list: &[Scn], tier: Tier, tag: &str) -> Result<Option<(usize, String, String)>, String> {
        let dir = format!("{}/harness/target/c18", crate::engine::verif_dir());
        std::fs::create_dir_all(&dir).map_err(|e| e.to_string())?;
        let file = format!("{dir}/{}-{tag}.json", self.scheme);
        std::fs::write(&file, serde_json::to_string(list).unwrap()).map_err(|e| e.to_string())?;
        let cfgs = configs();
        let base = run_cfg(&cfgs[0], self.scheme, tier, &file)?;
        if base.len() != list.len() {
            return Err(format!("digest mode printed {} lines for {} scenarios", base.len(), list.len()));
        }
        for cfg in &cfgs[1..] {
            let other = run_cfg(cfg, self.scheme, tier, &file)?;
            if let Some(i) = (0..base.len()).find(|i| other.get(*i) != Some(&base[*i])) {
                return Ok(Some((i, cfgs[0].name.clone(), cfg.name.clone())));
            }
        }
        Ok(None)
    }
}

impl Unit for DiffUnit {
    fn name(&self) -> String {
        format!("C18:{}:digests", self.scheme)
    }
    fn run(&self, cfg: &RunCfg, _shard: usize, _n: usize) -> UnitReport {
        let start = std::time::Instant::now();
        let n = if cfg.tier.is_quick() { self.quick } else { self.thorough };
        let list = scenarios(mix_seed(cfg.seed, &[self.scheme]), n);
        let mut rep = UnitReport { name: self.name(), ..Default::default() };
        if !std::path::Path::new(&nopar_bin()).exists() {
            println!("INCONCLUSIVE: {} is missing (run ./run.sh setup)", nopar_bin());
            std::process::exit(2);
        }
        let ncfg = configs().len() as u64;
        rep.evaluations = list.len() as u64 * ncfg;
        rep.asserts = list.len() as u64 * (ncfg - 1);
        for c in &list {
            if crosses_parallel_loop(c) {
                rep.nontrivial_count += 1;
                rep.nontrivial.insert(fnv64(&serde_json::to_vec(c).unwrap()));
                if rep.samples.len() < 2 {
                    rep.samples.push(json!({"unit": self.name(), "case": c, "configurations": configs().iter().map(|c| c.name.clone()).collect::<Vec<_>>()}));
                }
            }
        }
        match self.compare(&list, cfg.tier, "all") {
            Ok(None) => {}
            Ok(Some((i, a, b))) => {
                // reduce greedily: fewer polynomials, fewer labels, as long as the two configurations still disagree
                let mut cur = list[i].clone();
                loop {
                    let mut cands: Vec<Scn> = Vec::new();
                    if cur.polys.len() > 1 {
                        let mut c = cur.clone();
                        c.polys.pop();
                        cands.push(c);
                    }
                    if cur.labels.len() > 1 {
                        let mut c = cur.clone();
                        c.labels.pop();
                        cands.push(c);
                    }
                    if cur.key.a > 0 {
                        let mut c = cur.clone();
                        c.key.a /= 2;
                        cands.push(c);
                    }
                    let mut progressed = false;
                    for c in cands {
                        if let Ok(Some(_)) = self.compare(&[c.clone()], cfg.tier, "reduce") {
                            cur = c;
                            progressed = true;
                            break;
                        }
                    }
                    if !progressed {
                        break;
                    }
                }
                rep.failure = Some((
                    Failure { sig: sig(P, self.scheme, "digest", "configuration_dependent"), msg: format!("outputs differ between configurations `{a}` and `{b}` (first differing scenario {i}; reduced scenario saved)") },
                    serde_json::to_value(&cur).unwrap_or(Value::Null),
                ));
            }
            Err(e) => {
                println!("INCONCLUSIVE: C18 driver: {e}");
                std::process::exit(2);
            }
        }
        rep.wall_s = start.elapsed().as_secs_f64();
        rep
    }
    fn replay(&self, case: &Value, _known: &KnownFindings, _strict: bool) -> Result<Vec<String>, Failure> {
        let c: Scn = serde_json::from_value(case.clone()).map_err(|e| Failure { sig: format!("{}:bad-replay-file", self.name()), msg: e.to_string() })?;
        match self.compare(&[c], current_tier(), "replay") {
            Ok(None) => Ok(vec![]),
            Ok(Some((_, a, b))) => Err(Failure { sig: sig(P, self.scheme, "digest", "configuration_dependent"), msg: format!("outputs differ between `{a}` and `{b}`") }),
            Err(e) => Err(Failure { sig: sig(P, self.scheme, "driver", "error"), msg: e }),
        }
    }
}

pub fn spec() -> crate::engine::PropertySpec {
    let mk = |scheme: &'static str, quick: usize, thorough: usize| -> Box<dyn Unit> { Box::new(DiffUnit { scheme, quick, thorough }) };
    crate::engine::PropertySpec {
        id: "C18",
        rule: "A fixed-seed list of C01 scenarios per scheme (25 quick / 200 thorough; keys, polynomials with and without hiding and bounds, query sets, permutations) is executed by the binary's digest mode in child processes under RAYON_NUM_THREADS in {1, 2, 3, 8, 16} with three repeats at 16, and by a second build of the harness against ark-poly-commit without its `parallel` feature; per scenario one SHA-256 over the canonical serialization of universal parameters, committer and verifier key, every commitment and commitment state, every single-point proof, the batch proof and all verification decisions (all provers draw their randomness from seeded caller RNGs). Oracle: the digest lines of all configurations are identical. On a mismatch the scenario is reduced greedily (fewer polynomials, labels, smaller key) while the two configurations still disagree and saved as the replay. evaluations = scenarios x configurations. Non-trivial: a scenario with >= 2 polynomials (several rows / columns / MSM terms cross a parallel loop) or a key from the upper half of the size range.",
        assumptions: vec![
            "the harness does not own the scheduler: an interleaving-dependent result is found only if it manifests in one of the runs (repeats at 16 threads raise the chance)",
            "Hyrax commitments are included since the repair of F9 (caller RNG instead of thread_rng)",
        ],
        units: vec![mk("marlin", 25, 200), mk("sonic", 25, 200), mk("ipa", 25, 200), mk("pst13", 25, 200), mk("hyrax", 25, 200), mk("uligero", 25, 200), mk("mligero", 25, 200), mk("brakedown", 20, 160)],
        watchdog_s: (1800, 10800),
    }
}

#[allow(dead_code)]
fn _c(_: &mut CaseCtx) {}
