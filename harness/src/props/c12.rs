//! C12 — keys, commitments, states and proofs survive canonical serialization.

use super::c01::{kzg_case, kzg_hiding, kzg_keys, ml_case, ml_keys, KzgCase, MlCase};
use super::c02::delta;
use super::common::*;
use crate::engine::{CaseCtx, Failure, PropUnit, PropertySpec, Unit};
use crate::model::{scn, Scn};
use crate::schemes::*;
use crate::session::Session;
use crate::types::*;
use crate::util::{accepted, guard, guard_plain, rng, Out};
use ark_ff::One;
use ark_poly::{DenseUVPolynomial, Polynomial};
use ark_poly_commit::{kzg10, BatchLCProof, LabeledCommitment, LinearCombination, PolynomialCommitment};
use ark_serialize::{CanonicalDeserialize, CanonicalSerialize, Compress, Validate};
use proptest::prelude::*;
use serde_json::json;

const P: &str = "C12";

const MODES: [(Compress, Validate); 4] = [
    (Compress::Yes, Validate::Yes),
    (Compress::Yes, Validate::No),
    (Compress::No, Validate::Yes),
    (Compress::No, Validate::No),
];

fn ser_mode<T: CanonicalSerialize>(x: &T, c: Compress) -> Vec<u8> {
    let mut v = Vec::new();
    x.serialize_with_mode(&mut v, c).expect("serialize to a Vec");
    v
}

/// All C12 oracles for one artefact; returns the value deserialized from the compressed encoding.
pub fn roundtrip<T: CanonicalSerialize + CanonicalDeserialize>(
    x: &T,
    scheme: &str,
    what: &str,
    ctx: &mut CaseCtx,
    seed: u64,
) -> Result<T, Failure> {
    let mut back: Option<T> = None;
    for (c, v) in MODES {
        let cn = if c == Compress::Yes { "compressed" } else { "uncompressed" };
        let vn = if v == Validate::Yes { "validate" } else { "novalidate" };
        let bytes = match guard_plain(|| ser_mode(x, c)) {
            Out::Ok(b) => b,
            o => return ctx.fail(sig(P, scheme, what, "serialize_abort"), o.describe_nodebug()).map(|_| unreachable!()),
        };
        let size = x.serialized_size(c);
        ctx.check(size == bytes.len(), sig(P, scheme, what, "serialized_size_mismatch"), || {
            format!("{what} ({cn}): serialized_size reports {size}, {} bytes written", bytes.len())
        })?;
        let y = match guard(|| T::deserialize_with_mode(&bytes[..], c, v)) {
            Out::Ok(y) => y,
            o => {
                ctx.fail(sig(P, scheme, what, "own_encoding_rejected"), format!("{what} ({cn}, {vn}): {}", o.describe_nodebug()))?;
                continue;
            }
        };
        let again = ser_mode(&y, c);
        ctx.check(again == bytes, sig(P, scheme, what, "reserialization_differs"), || {
            let k = again.iter().zip(&bytes).position(|(a, b)| a != b);
            format!("{what} ({cn}, {vn}): ser(deser(ser(x))) != ser(x), first difference at byte {k:?} of {}", bytes.len())
        })?;
        // cross-mode: the value read from one encoding writes the other encoding of the original
        let other = if c == Compress::Yes { Compress::No } else { Compress::Yes };
        ctx.check(ser_mode(&y, other) == ser_mode(x, other), sig(P, scheme, what, "cross_mode_differs"), || {
            format!("{what}: value read from the {cn} encoding re-serializes differently in the other mode")
        })?;
        // truncation: every proper prefix is an error
        if v == Validate::Yes {
            let n = bytes.len();
            // all prefixes of small encodings; otherwise the first 64, the last 64 and 64 generated cut points
            let cuts: Vec<usize> = if n <= 320 {
                (0..n).collect()
            } else {
                use rand_core::RngCore;
                let mut g = rng(seed ^ n as u64);
                let k = if n <= 4096 { 64 } else { 12 };
                let mut v: Vec<usize> = (0..k).map(|_| (g.next_u64() as usize) % n).collect();
                v.extend(0..k);
                v.extend(n - k..n);
                v
            };
            for k in cuts {
                let r = guard(|| T::deserialize_with_mode(&bytes[..k], c, v));
                ctx.asserts += 1;
                match r {
                    Out::Err(_) => {}
                    Out::Ok(_) => {
                        ctx.fail(sig(P, scheme, what, "truncated_input_accepted"), format!("{what} ({cn}): prefix of {k} of {n} bytes deserialized successfully"))?;
                    }
                    Out::Abort(m) => {
                        ctx.fail(sig(P, scheme, what, "truncated_input_aborts"), format!("{what} ({cn}): prefix of {k} of {n} bytes aborted: {m}"))?;
                    }
                }
            }
        }
        if c == Compress::Yes && v == Validate::Yes {
            back = Some(y);
        }
    }
    match back {
        Some(y) => Ok(y),
        None => Err(Failure { sig: sig(P, scheme, what, "own_encoding_rejected"), msg: format!("{what}: no deserialized value") }),
    }
}


/// round trip of the universal parameters, and keys trimmed from the deserialized parameters
fn universal_params_section<S: Scheme>(sess: &Session<S>, ctx: &mut CaseCtx, sd: u64) -> Result<(), Failure> {
    let pp2 = roundtrip(&*sess.keys.pp, S::NAME, "universal_params", ctx, sd)?;
    {
        {
            let info = &sess.keys.info;
            match guard(|| S::PC::trim(&pp2, info.supported, info.hiding, info.requested_bounds.as_deref())) {
                Out::Ok((ck3, vk3)) => {
                    ctx.label("keys_trimmed_from_deserialized_parameters");
                    ctx.check(
                        crate::util::ser(&ck3) == crate::util::ser(&sess.keys.ck) || S::NAME == "ipa",
                        sig(P, S::NAME, "universal_params", "trimmed_key_differs_after_roundtrip"),
                        || "the committer key trimmed from the deserialized parameters serializes differently from the original key".into(),
                    )?;
                    let g = &sess.groups[0];
                    let order = sess.group_order(g);
                    let values: Vec<S::F> = order.iter().map(|i| sess.true_value(*i, &g.point)).collect();
                    if let Out::Ok(pr) = sess.open_idx(&order, &g.point, &mut sess.sponge(), sess.seeds[1]) {
                        let cs: Vec<_> = order.iter().map(|i| &sess.comms[*i]).collect();
                        let a = sess.check_idx(&order, &g.point, values.clone(), &pr, &mut sess.sponge(), sd);
                        let mut r = rng(sd);
                        let b = guard(|| S::PC::check(&vk3, cs, &g.point, values.clone(), &pr, &mut sess.sponge(), Some(&mut r)));
                        ctx.check(accepted(&a) == accepted(&b), sig(P, S::NAME, "check", "decision_changes_with_keys_from_deserialized_parameters"), || {
                            format!("original key {}, key trimmed from the deserialized parameters {}", a.describe(), b.describe())
                        })?;
                    }
                    let qs = sess.query_set();
                    let evals = sess.evaluations();
                    if let Out::Ok(bp) = sess.batch_open(&qs, &mut sess.sponge(), sess.seeds[1]) {
                        let a = sess.batch_check(sess.verifier_comms(), &qs, &evals, &bp, &mut sess.sponge(), sd);
                        let mut r = rng(sd);
                        let b = guard(|| S::PC::batch_check(&vk3, sess.verifier_comms(), &qs, &evals, &bp, &mut sess.sponge(), &mut r));
                        ctx.check(accepted(&a) == accepted(&b), sig(P, S::NAME, "batch_check", "decision_changes_with_keys_from_deserialized_parameters"), || {
                            format!("original key {}, key trimmed from the deserialized parameters {}", a.describe(), b.describe())
                        })?;
                    }
                }
                o => {
                    return ctx.fail(sig(P, S::NAME, "universal_params", "deserialized_parameters_refuse_trim"), format!("trim on the deserialized parameters: {}", o.describe_nodebug()));
                }
            }
        }
    }
    Ok(())
}

pub fn check_trait<S: Scheme>(c: &Scn, ctx: &mut CaseCtx) -> Result<(), Failure> {
    let tier = current_tier();
    let Ok(sess) = Session::<S>::build(c, tier) else {
        ctx.label("build_failed(C01)");
        return Ok(());
    };
    classify(&sess, ctx);
    let handwritten = matches!(S::NAME, "marlin" | "sonic" | "pst13");
    ctx.nontrivial_if(handwritten || sess.meta.iter().any(|m| m.bound.is_some() || m.hiding.is_some()));
    ctx.derived = Some(sess.describe());
    let sd = c.seeds[2];

    // universal parameters are memoised across cases: each distinct value is round-tripped and tested once per
    // process (first case that meets it); the *verdict* is kept and given to every case that uses the same
    // parameters, so that a case's outcome does not depend on which case met the parameters first.
    {
        use std::sync::{Mutex, OnceLock};
        static SEEN: OnceLock<Mutex<std::collections::HashMap<u64, Result<(), (String, String)>>>> = OnceLock::new();
        let h = crate::util::fnv64(&crate::util::ser(&*sess.keys.pp)) ^ crate::util::fnv64(S::NAME.as_bytes());
        let cached = SEEN.get_or_init(|| Mutex::new(Default::default())).lock().unwrap().get(&h).cloned();
        let verdict = match cached {
            Some(v) => v,
            None => {
                let mut inner = CaseCtx::new_like(ctx);
                let r = universal_params_section::<S>(&sess, &mut inner, sd);
                ctx.absorb(inner);
                ctx.label("universal_params_roundtripped");
                let v = r.map_err(|f| (f.sig, f.msg));
                SEEN.get().unwrap().lock().unwrap().insert(h, v.clone());
                v
            }
        };
        if let Err((sg, msg)) = verdict {
            return ctx.fail(sg, msg);
        }
    }
    let ck2 = roundtrip(&sess.keys.ck, S::NAME, "committer_key", ctx, sd)?;
    let vk2 = roundtrip(&sess.keys.vk, S::NAME, "verifier_key", ctx, sd)?;
    let mut comms2 = Vec::new();
    for (i, cm) in sess.comms.iter().enumerate() {
        let c2 = roundtrip(cm.commitment(), S::NAME, "commitment", ctx, sd)?;
        comms2.push(LabeledCommitment::new(cm.label().clone(), c2, cm.degree_bound()));
        let _ = roundtrip(&sess.states[i], S::NAME, "commitment_state", ctx, sd)?;
        let _ = roundtrip(&sess.polys[i], S::NAME, "labeled_polynomial", ctx, sd)?;
    }

    // single proof
    let g = &sess.groups[0];
    let order = g.polys.clone();
    let values: Vec<S::F> = order.iter().map(|i| sess.true_value(*i, &g.point)).collect();
    if let Out::Ok(proof) = sess.open_idx(&order, &g.point, &mut sess.sponge(), sess.seeds[1]) {
        // Proof is only Clone in the trait; go through the adapter's byte functions in every mode
        for (cm, vm) in [(true, true), (true, false), (false, true), (false, false)] {
            let bytes = S::proof_bytes(&proof, cm);
            let back = match S::proof_from_bytes(&bytes, cm, vm) {
                Ok(p) => p,
                Err(e) => return ctx.fail(sig(P, S::NAME, "proof", "own_encoding_rejected"), e),
            };
            ctx.check(S::proof_bytes(&back, cm) == bytes, sig(P, S::NAME, "proof", "reserialization_differs"), || "proof".into())?;
            if vm {
                let n = bytes.len();
                let step = (n / 256).max(1);
                for k in (0..n).step_by(step) {
                    let r = crate::util::guard_plain(|| S::proof_from_bytes(&bytes[..k], cm, vm));
                    ctx.asserts += 1;
                    match r {
                        Out::Ok(Err(_)) => {}
                        Out::Ok(Ok(_)) => ctx.fail(sig(P, S::NAME, "proof", "truncated_input_accepted"), format!("prefix {k}/{n}"))?,
                        o => ctx.fail(sig(P, S::NAME, "proof", "truncated_input_aborts"), format!("prefix {k}/{n}: {}", o.describe_nodebug()))?,
                    }
                }
            }
        }
        // decisions with everything deserialized
        let proof2 = S::proof_from_bytes(&S::proof_bytes(&proof, false), false, true).map_err(|e| Failure { sig: sig(P, S::NAME, "proof", "own_encoding_rejected"), msg: e })?;
        let cs: Vec<&LabeledCommitment<Comm<S>>> = order.iter().map(|i| &comms2[*i]).collect();
        let mut r1 = rng(1);
        let mut sp = sess.sponge();
        let honest = guard(|| S::PC::check(&vk2, cs.clone(), &g.point, values.clone(), &proof2, &mut sp, Some(&mut r1)));
        let orig = sess.check_idx(&order, &g.point, values.clone(), &proof, &mut sess.sponge(), 1);
        ctx.check(accepted(&honest) == accepted(&orig), sig(P, S::NAME, "check", "decision_changes_after_roundtrip"), || {
            format!("honest claim: original inputs {}, deserialized inputs {}", orig.describe(), honest.describe())
        })?;
        let mut bad = values.clone();
        bad[0] += delta::<S::F>(sd);
        let mut sp = sess.sponge();
        let mut r1 = rng(1);
        let tampered = guard(|| S::PC::check(&vk2, cs, &g.point, bad, &proof2, &mut sp, Some(&mut r1)));
        ctx.check(!accepted(&tampered), sig(P, S::NAME, "check", "tampered_claim_accepted_after_roundtrip"), || tampered.describe())?;
        // the deserialized committer key commits identically (non-hiding polynomials)
        if let Some(i) = (0..sess.n()).find(|i| sess.meta[*i].hiding.is_none() && S::NAME != "hyrax") {
            let mut r = rng(sess.seeds[0]);
            if let Out::Ok((cc, _)) = guard(|| S::PC::commit(&ck2, [&sess.polys[i]], Some(&mut r))) {
                ctx.check(crate::util::ser(cc[0].commitment()) == crate::util::ser(sess.comms[i].commitment()), sig(P, S::NAME, "commit", "deserialized_key_commits_differently"), || "commitment under the deserialized key differs".into())?;
            }
        }
    }
    // batch proof and LC proof
    let qs = sess.query_set();
    if let Out::Ok(bp) = sess.batch_open(&qs, &mut sess.sponge(), sess.seeds[1]) {
        let bp2 = roundtrip(&bp, S::NAME, "batch_proof", ctx, sd)?;
        let evals = sess.evaluations();
        let comm_refs: Vec<&LabeledCommitment<Comm<S>>> = sess.perm_v.iter().map(|i| &comms2[*i]).collect();
        let mut sp = sess.sponge();
        let mut r1 = rng(2);
        let r = guard(|| S::PC::batch_check(&vk2, comm_refs, &qs, &evals, &bp2, &mut sp, &mut r1));
        let orig = sess.batch_check(sess.verifier_comms(), &qs, &evals, &bp, &mut sess.sponge(), 2);
        ctx.check(accepted(&r) == accepted(&orig), sig(P, S::NAME, "batch_check", "decision_changes_after_roundtrip"), || format!("original {}, deserialized {}", orig.describe(), r.describe()))?;
    }
    // a one-term combination of an unbounded polynomial, to exercise BatchLCProof
    if let Some(i) = (0..sess.n()).find(|i| sess.meta[*i].bound.is_none()) {
        let lc = LinearCombination::new("lc", vec![(S::F::one(), sess.polys[i].label().clone())]);
        let mut q = std::collections::BTreeSet::new();
        q.insert(("lc".to_string(), ("pt".to_string(), sess.point_vals[0].clone())));
        let ps: Vec<_> = sess.polys.iter().collect();
        let cs: Vec<_> = sess.comms.iter().collect();
        let ss: Vec<_> = sess.states.iter().collect();
        let mut r = rng(3);
        let mut sp = sess.sponge();
        if let Out::Ok(lp) = guard(|| S::PC::open_combinations(&sess.keys.ck, [&lc], ps, cs, &q, &mut sp, ss, Some(&mut r))) {
            let lp2: BatchLCProof<S::F, BatchProof<S>> = roundtrip(&lp, S::NAME, "batch_lc_proof", ctx, sd)?;
            let mut ev = std::collections::BTreeMap::new();
            ev.insert(("lc".to_string(), sess.point_vals[0].clone()), sess.true_value(i, &sess.point_vals[0]));
            let mut sp = sess.sponge();
            let mut r1 = rng(4);
            let r = guard(|| S::PC::check_combinations(&vk2, [&lc], comms2.iter(), &q, &ev, &lp2, &mut sp, &mut r1));
            ctx.check(accepted(&r), sig(P, S::NAME, "check_combinations", "decision_changes_after_roundtrip"), || r.describe())?;
        }
    }
    Ok(())
}

fn check_kzg(c: &KzgCase, ctx: &mut CaseCtx) -> Result<(), Failure> {
    let Ok(keys) = kzg_keys(c.max, c.supported, c.hiding_key, c.seed) else { return Ok(()) };
    ctx.nontrivial = true;
    let sd = c.seeds[1];
    let powers = keys.powers();
    let pw2: kzg10::Powers<E> = roundtrip(&powers, "kzg10", "powers", ctx, sd)?;
    let vk2 = roundtrip(&keys.vk, "kzg10", "verifier_key", ctx, sd)?;
    let _ = roundtrip(&*keys.pp, "kzg10", "universal_params", ctx, sd)?;
    let (pr, zr) = &c.items[0];
    let (coeffs, _) = uni_coeffs::<Fr>(keys.supported, pr);
    let p = UniPoly::from_coefficients_vec(coeffs);
    let h = kzg_hiding(&keys, pr.hiding);
    let z: Fr = zr.to_f();
    let mut g = rng(c.seeds[0]);
    let Out::Ok((cm, rand)) = guard(|| Kzg::commit(&pw2, &p, h, Some(&mut g))) else { return Ok(()) };
    let cm2 = roundtrip(&cm, "kzg10", "commitment", ctx, sd)?;
    let rand2 = roundtrip(&rand, "kzg10", "randomness", ctx, sd)?;
    let Out::Ok(proof) = guard(|| Kzg::open(&pw2, &p, z, &rand2)) else { return Ok(()) };
    let proof2 = roundtrip(&proof, "kzg10", "proof", ctx, sd)?;
    let v = p.evaluate(&z);
    let r = guard(|| Kzg::check(&vk2, &cm2, z, v, &proof2));
    ctx.check(accepted(&r), sig(P, "kzg10", "check", "decision_changes_after_roundtrip"), || r.describe())?;
    let r = guard(|| Kzg::check(&vk2, &cm2, z, v + Fr::one(), &proof2));
    ctx.check(!accepted(&r), sig(P, "kzg10", "check", "tampered_claim_accepted_after_roundtrip"), || r.describe())?;
    // the key deserialized without validation pairs like the original (prepared elements rebuilt from the right source)
    let mut bytes = Vec::new();
    keys.vk.serialize_uncompressed(&mut bytes).unwrap();
    if let Ok(vk3) = kzg10::VerifierKey::<E>::deserialize_uncompressed_unchecked(&bytes[..]) {
        let r = guard(|| Kzg::batch_check(&vk3, &[cm2], &[z], &[v], &[proof2], &mut rng(1)));
        ctx.check(accepted(&r), sig(P, "kzg10", "batch_check", "prepared_elements_after_roundtrip"), || r.describe())?;
    }
    Ok(())
}

fn check_ml(c: &MlCase, ctx: &mut CaseCtx) -> Result<(), Failure> {
    let Ok((pp, ck, vk, nv_max, nv)) = ml_keys(c.nv_max, c.nv, c.seed) else { return Ok(()) };
    ctx.nontrivial_if(nv < nv_max);
    let sd = c.poly.seed;
    let _ = roundtrip(&*pp, "mlpst", "universal_params", ctx, sd)?;
    let ck2 = roundtrip(&ck, "mlpst", "committer_key", ctx, sd)?;
    let vk2 = roundtrip(&vk, "mlpst", "verifier_key", ctx, sd)?;
    let built = mle_from_raw(nv, &c.poly);
    let point: Vec<Fr> = c.point.to_vec(nv);
    let Out::Ok(cm) = guard_plain(|| MlPst::commit(&ck2, &built.poly)) else { return Ok(()) };
    let Out::Ok(pr) = guard_plain(|| MlPst::open(&ck2, &built.poly, &point)) else { return Ok(()) };
    let cm2 = roundtrip(&cm, "mlpst", "commitment", ctx, sd)?;
    let pr2 = roundtrip(&pr, "mlpst", "proof", ctx, sd)?;
    let v = built.poly.evaluate(&point);
    let r = guard_plain(|| MlPst::check(&vk2, &cm2, &point, v, &pr2));
    ctx.check(accepted(&r), sig(P, "mlpst", "check", "decision_changes_after_roundtrip"), || r.describe())?;
    let r = guard_plain(|| MlPst::check(&vk2, &cm2, &point, v + Fr::one(), &pr2));
    ctx.check(!accepted(&r), sig(P, "mlpst", "check", "tampered_claim_accepted_after_roundtrip"), || r.describe())
}

pub fn spec() -> PropertySpec {
    let budget = |name: &str| -> (u32, u32, usize) {
        match name {
            "brakedown" => (30, 240, 6),
            "mligero" | "uligero" => (40, 320, 4),
            "hyrax" => (40, 320, 4),
            _ => (60, 480, 4),
        }
    };
    let mut units: Vec<Box<dyn Unit>> = crate::per_scheme_units!(
        P,
        "roundtrip",
        3,
        check_trait,
        budget,
        [Marlin, Sonic, Ipa, Pst13, Hyrax, ULigero, MLigero, Brakedown]
    );
    units.push(PropUnit::new("C12:kzg10:roundtrip", 80, 640, 2, |_| kzg_case().boxed(), check_kzg));
    units.push(PropUnit::new("C12:mlpst:roundtrip", 60, 480, 2, |_| ml_case().boxed(), check_ml));
    PropertySpec {
        id: "C12",
        rule: "Every serializable artefact produced along a generated C01 transcript (universal parameters, committer key, verifier key, each commitment, commitment state and labelled polynomial, the single proof, the batch proof, a BatchLCProof; KZG10 powers/verifier key/parameters/commitment/randomness/proof; multilinear-PST parameters, keys, commitment, proof) is pushed through Compress in {yes,no} x Validate in {yes,no}. Oracles: len(ser(x)) == serialized_size; ser(deser(ser(x))) == ser(x); the value read from one compression mode re-serializes identically in the other; every proper prefix (all prefixes up to 320 bytes; up to 4 KiB the first 64, the last 64 and 64 generated cut points; 12+12+12 for larger encodings; proofs: up to 256 evenly spaced cuts) deserializes to Err (Ok or abort is a violation); check / batch_check / check_combinations with all-deserialized keys, commitments and proofs give the same decision as with the originals on the honest claim and reject one tampered claim; the deserialized committer key recommits identically; keys trimmed from the *deserialized universal parameters* serialize like the original keys and give the same check / batch_check decisions; a KZG10 verifier key read without validation still pairs correctly (prepared elements). Non-trivial: the artefact carries an optional part (degree bound, hiding) or belongs to a scheme with hand-written (de)serializers (KZG10/Marlin, Sonic, PST13).",
        assumptions: vec!["streaming-KZG types are not serializable and are outside this property by construction"],
        units,
        watchdog_s: (1800, 7200),
    }
}
