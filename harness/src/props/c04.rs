//! C04 — degree bounds are enforced by committer and verifier (Marlin, Sonic, IPA).

use super::c02::expect_reject;
use super::common::*;
use crate::engine::{CaseCtx, Failure, PropUnit, PropertySpec, Unit};
use crate::model::{key_raw, KeyRaw};
use crate::schemes::*;
use crate::types::*;
use crate::util::{accepted, guard, pick, rng, ser, Out};
use ark_ff::{Field, One, PrimeField, UniformRand, Zero};
use ark_poly::{DenseUVPolynomial, Polynomial};
use ark_poly_commit::{LabeledCommitment, LabeledPolynomial, PCCommitment, PolynomialCommitment};
use proptest::prelude::*;
use serde::{Deserialize, Serialize};
use serde_json::json;

const P: &str = "C04";

#[derive(Clone, Debug, Serialize, Deserialize)]
pub struct Case {
    pub key: KeyRaw,
    /// 0 admission grid, 1 mislabelled bound, 2 shifted part dropped / swapped / replaced,
    /// 3 key requested with an enforced bound beyond the supported degree
    pub group: u8,
    /// admission: 0 = bound from the enforced set, 1 = inside 1..=supported but not enforced, 2 = beyond supported
    pub dkind: u8,
    pub d_choice: u16,
    pub d2_choice: u16,
    /// admission: degree relative to the bound: 0 => d-1, 1 => d, 2 => d+1
    pub deg_rel: u8,
    pub deg_choice: u16,
    pub hiding: u8,
    pub variant: u8,
    pub seed: u64,
}

pub fn case() -> impl Strategy<Value = Case> {
    (
        key_raw(),
        prop_oneof![2 => Just(0u8), 2 => Just(1u8), 2 => Just(2u8), 1 => Just(3u8)],
        0u8..3,
        any::<u16>(),
        any::<u16>(),
        0u8..3,
        any::<u16>(),
        prop_oneof![2 => Just(0u8), 1 => 1u8..=255],
        0u8..6,
        any::<u64>(),
    )
        .prop_map(
            |(mut key, group, dkind, d_choice, d2_choice, deg_rel, deg_choice, hiding, variant, seed)| {
                // degree-bound tests want keys with bounds most of the time
                if key.bounds.is_none() && seed % 4 != 0 {
                    key.bounds = Some(vec![d_choice, d2_choice, deg_choice]);
                }
                Case {
                    key,
                    group,
                    dkind,
                    d_choice,
                    d2_choice,
                    deg_rel,
                    deg_choice,
                    hiding,
                    variant,
                    seed,
                }
            },
        )
}

fn rand_poly<S: Scheme>(deg: usize, seed: u64) -> S::P
where
    S::P: DenseUVPolynomial<S::F>,
{
    let mut g = rng(seed);
    let mut c: Vec<S::F> = (0..=deg).map(|_| S::F::rand(&mut g)).collect();
    if c[deg].is_zero() {
        c[deg] = S::F::one();
    }
    crate::util::low_zeros(&mut c, seed);
    S::P::from_coefficients_vec(c)
}

fn hiding_for<S: Scheme>(info: &KeyInfo, bound: Option<usize>, raw: u8) -> Option<usize> {
    crate::session::choose_bound_hiding::<S>(info, 0, 0, raw).1.map(|h| match (S::HIDING_LE_BOUND, bound) {
        (true, Some(b)) => h.min(b).max(1),
        _ => h,
    })
}

type LC<S> = LabeledCommitment<Comm<S>>;

fn commit1<S: Scheme>(
    keys: &Keys<S>,
    lp: &LabeledPolynomial<S::F, S::P>,
    seed: u64,
) -> Out<(LC<S>, State<S>)> {
    let mut r = rng(seed);
    match guard(|| S::PC::commit(&keys.ck, [lp], Some(&mut r))) {
        Out::Ok((mut c, mut s)) => {
            if c.len() == 1 && s.len() == 1 {
                Out::Ok((c.remove(0), s.remove(0)))
            } else {
                Out::Err("commit returned a list of the wrong length".into())
            }
        }
        Out::Err(e) => Out::Err(e),
        Out::Abort(e) => Out::Abort(e),
    }
}

fn open1<S: Scheme>(
    keys: &Keys<S>,
    lp: &LabeledPolynomial<S::F, S::P>,
    c: &LC<S>,
    st: &State<S>,
    z: &S::Pt,
    seed: u64,
) -> Out<Proof<S>> {
    let mut r = rng(seed);
    let mut sp = sponge::<S::F>(0);
    guard(|| S::PC::open(&keys.ck, [lp], [c], z, &mut sp, [st], Some(&mut r)))
}

thread_local! {
    /// the verifier entry point of the current case: `check`, or `batch_check` on a one-label query set
    static VIA_BATCH: std::cell::Cell<bool> = const { std::cell::Cell::new(false) };
    /// ... or `check_combinations` on the single-term combination [1 * p]
    static VIA_COMB: std::cell::Cell<bool> = const { std::cell::Cell::new(false) };
}

fn check1<S: Scheme>(keys: &Keys<S>, c: &LC<S>, z: &S::Pt, v: S::F, proof: &Proof<S>) -> Out<bool> {
    let mut sp = sponge::<S::F>(0);
    let mut r = rng(7);
    if VIA_COMB.with(|b| b.get()) {
        use ark_poly_commit::{BatchLCProof, LCTerm, LinearCombination};
        let lc = LinearCombination::new("lc", vec![(S::F::one(), LCTerm::PolyLabel(c.label().clone()))]);
        let mut qs = std::collections::BTreeSet::new();
        qs.insert(("lc".to_string(), ("z".to_string(), z.clone())));
        let mut ev = std::collections::BTreeMap::new();
        ev.insert(("lc".to_string(), z.clone()), v);
        let bp: BatchProof<S> = vec![proof.clone()].into();
        let lp = BatchLCProof { proof: bp, evals: None };
        return guard(|| S::PC::check_combinations(&keys.vk, [&lc], [c], &qs, &ev, &lp, &mut sp, &mut r));
    }
    if VIA_BATCH.with(|b| b.get()) {
        let mut qs = std::collections::BTreeSet::new();
        qs.insert((c.label().clone(), ("z".to_string(), z.clone())));
        let mut ev = std::collections::BTreeMap::new();
        ev.insert((c.label().clone(), z.clone()), v);
        let bp: BatchProof<S> = vec![proof.clone()].into();
        return guard(|| S::PC::batch_check(&keys.vk, [c], &qs, &ev, &bp, &mut sp, &mut r));
    }
    guard(|| S::PC::check(&keys.vk, [c], z, [v], proof, &mut sp, Some(&mut r)))
}

/// Scheme-specific surgery on commitments (shifted part access).
pub trait BoundOps: Scheme {
    /// (commitment with its degree-bound part removed, Some) / None if the scheme has no separate part
    fn drop_shifted(c: &Comm<Self>) -> Option<Comm<Self>>;
    /// replace the degree-bound part of `c` by that of `other`
    fn take_shifted_from(c: &Comm<Self>, other: &Comm<Self>) -> Option<Comm<Self>>;
    /// degree-bound part := the plain commitment
    fn shifted_from_plain(c: &Comm<Self>) -> Option<Comm<Self>>;
    /// admissible point for degree-bound mislabel detection
    fn admissible(z: &Self::F, v: &Self::F, d: usize, d2: usize) -> bool;
}

impl BoundOps for Marlin {
    fn drop_shifted(c: &Comm<Self>) -> Option<Comm<Self>> {
        let mut c = *c;
        c.shifted_comm = None;
        Some(c)
    }
    fn take_shifted_from(c: &Comm<Self>, other: &Comm<Self>) -> Option<Comm<Self>> {
        let mut c = *c;
        c.shifted_comm = other.shifted_comm;
        Some(c)
    }
    fn shifted_from_plain(c: &Comm<Self>) -> Option<Comm<Self>> {
        let mut c = *c;
        c.shifted_comm = Some(c.comm);
        Some(c)
    }
    fn admissible(_z: &Fr, v: &Fr, _d: usize, _d2: usize) -> bool {
        !v.is_zero()
    }
}

impl BoundOps for Sonic {
    fn drop_shifted(_c: &Comm<Self>) -> Option<Comm<Self>> {
        None
    }
    fn take_shifted_from(_c: &Comm<Self>, _other: &Comm<Self>) -> Option<Comm<Self>> {
        None
    }
    fn shifted_from_plain(_c: &Comm<Self>) -> Option<Comm<Self>> {
        None
    }
    fn admissible(_z: &Fr, v: &Fr, _d: usize, _d2: usize) -> bool {
        // a commitment made under d' and presented under d > d' is a valid bounded commitment to
        // x^(d-d')*p; with the honest proof it verifies exactly when p(z) = 0
        !v.is_zero()
    }
}

impl BoundOps for Ipa {
    fn drop_shifted(c: &Comm<Self>) -> Option<Comm<Self>> {
        let mut c = *c;
        c.shifted_comm = None;
        Some(c)
    }
    fn take_shifted_from(c: &Comm<Self>, other: &Comm<Self>) -> Option<Comm<Self>> {
        let mut c = *c;
        c.shifted_comm = other.shifted_comm;
        Some(c)
    }
    fn shifted_from_plain(c: &Comm<Self>) -> Option<Comm<Self>> {
        let mut c = *c;
        c.shifted_comm = Some(c.comm);
        Some(c)
    }
    fn admissible(z: &JFr, v: &JFr, d: usize, d2: usize) -> bool {
        // the bound is enforced through the identity z^(D-d) p(z) at the query point
        let k = d.abs_diff(d2) as u64;
        !v.is_zero() && !z.is_zero() && !z.pow([k]).is_one()
    }
}

pub fn check_case<S: BoundOps<Pt = <S as Scheme>::F>>(c: &Case, ctx: &mut CaseCtx) -> Result<(), Failure>
where
    S::P: DenseUVPolynomial<S::F>,
{
    let tier = current_tier();
    let Ok(keys) = S::keys(&c.key, tier) else {
        ctx.label("keys_failed(C09)");
        return Ok(());
    };
    let via = (c.seed >> 7) % 4;
    let (via_batch, via_comb) = (via == 0, via == 1);
    VIA_BATCH.with(|b| b.set(via_batch));
    VIA_COMB.with(|b| b.set(via_comb));
    ctx.label(if via_batch { "entry:batch_check(one label)" } else if via_comb { "entry:check_combinations([1*p])" } else { "entry:check" });
    let info = keys.info.clone();
    let sup = info.supported;
    let enforced: Vec<usize> = if info.any_bound {
        (1..=sup).collect()
    } else {
        info.enforced.clone().unwrap_or_default()
    };
    let maxb = enforced.iter().max().cloned();
    match c.group {
        // ------------------------------------------------------------------------------ admission grid
        0 => {
            let not_enforced: Vec<usize> = (1..=sup).filter(|d| !enforced.contains(d)).collect();
            let (d, kind) = match c.dkind {
                0 if !enforced.is_empty() => (enforced[pick(c.d_choice, enforced.len())], "enforced"),
                1 if !not_enforced.is_empty() => (not_enforced[pick(c.d_choice, not_enforced.len())], "not_enforced"),
                2 => (sup + 1 + pick(c.d_choice, 3), "beyond_supported"),
                _ if !enforced.is_empty() => (enforced[pick(c.d_choice, enforced.len())], "enforced"),
                _ => (1 + pick(c.d_choice, sup), "no_bounds_in_key"),
            };
            let deg = match c.deg_rel {
                0 => d.saturating_sub(1),
                1 => d,
                _ => d + 1,
            }
            .min(sup + 1);
            let admissible = enforced.contains(&d) && deg <= d && deg <= sup;
            let h = hiding_for::<S>(&info, Some(d), c.hiding);
            ctx.label(&format!("bound:{kind}"));
            ctx.label(&format!("deg_rel:{}", if deg < d { "below" } else if deg == d { "equal" } else { "above" }));
            ctx.label_if(admissible, "admissible");
            ctx.nontrivial_if(deg.abs_diff(d) <= 1 && (Some(d) != maxb || h.is_some()));
            ctx.derived = Some(json!({"scheme": S::NAME, "key": info.desc, "declared_bound": d, "degree": deg, "hiding": h, "admissible": admissible}));
            let p = rand_poly::<S>(deg, c.seed);
            let lp = LabeledPolynomial::new("p".into(), p.clone(), Some(d), h);
            let z = S::F::rand(&mut rng(c.seed ^ 0x22));
            let r = commit1::<S>(&keys, &lp, c.seed);
            ctx.asserts += 1;
            match (&r, admissible) {
                (Out::Ok(_), false) => {
                    return ctx.fail(
                        sig(P, S::NAME, "commit", "inadmissible_bound_accepted"),
                        format!("commit succeeded for degree {deg}, bound {d} ({kind}), supported {sup}, enforced {enforced:?}"),
                    )
                }
                (Out::Ok((cm, st)), true) => {
                    // boundary completeness: open and check must succeed
                    let pr = match open1::<S>(&keys, &lp, cm, st, &z, c.seed) {
                        Out::Ok(pr) => pr,
                        o => {
                            return ctx.fail(
                                sig(P, S::NAME, "open", "admissible_refused"),
                                format!("open refused degree {deg}, bound {d}: {}", o.describe_nodebug()),
                            )
                        }
                    };
                    let r = check1::<S>(&keys, cm, &z, p.evaluate(&z), &pr);
                    ctx.check(accepted(&r), sig(P, S::NAME, "check", "admissible_rejected"), || {
                        format!("honest degree-bound opening rejected (degree {deg}, bound {d}): {}", r.describe())
                    })?;
                }
                (o, true) => {
                    return ctx.fail(
                        sig(P, S::NAME, "commit", "admissible_refused"),
                        format!("commit refused degree {deg}, bound {d} (enforced): {}", o.describe_nodebug()),
                    )
                }
                (_, false) => {}
            }
            // open's own admission check: commit under an admissible configuration, then relabel
            if !admissible && deg <= sup {
                let ok_bounds: Vec<usize> = enforced.iter().cloned().filter(|b| *b >= deg).collect();
                let b_ok = ok_bounds.first().cloned();
                let h2 = hiding_for::<S>(&info, b_ok, c.hiding);
                let lp_ok = LabeledPolynomial::new("p".into(), p.clone(), b_ok, h2);
                if let Out::Ok((cm, st)) = commit1::<S>(&keys, &lp_ok, c.seed) {
                    let lp_bad = LabeledPolynomial::new("p".into(), p.clone(), Some(d), h2);
                    let cm_bad = LabeledCommitment::new("p".into(), cm.commitment().clone(), Some(d));
                    let r = open1::<S>(&keys, &lp_bad, &cm_bad, &st, &z, c.seed);
                    ctx.asserts += 1;
                    if let Out::Ok(pr) = r {
                        // a proof was produced for an inadmissible bound: it must at least not verify under that bound
                        let rc = check1::<S>(&keys, &cm_bad, &z, p.evaluate(&z), &pr);
                        if accepted(&rc) {
                            return ctx.fail(
                                sig(P, S::NAME, "open", "inadmissible_bound_opened_and_accepted"),
                                format!("open+check succeeded for degree {deg} relabelled with bound {d} ({kind})"),
                            );
                        }
                        return ctx.fail(
                            sig(P, S::NAME, "open", "inadmissible_bound_accepted"),
                            format!("open returned a proof for degree {deg} relabelled with bound {d} ({kind}); committed under {b_ok:?}"),
                        );
                    }
                }
            }
            Ok(())
        }
        // ------------------------------------------------------------- key with a bound beyond `supported`
        3 => {
            if info.any_bound {
                ctx.label("scheme_trims_no_bound_list");
                return Ok(());
            }
            let max = info.max_degree;
            let d = if max > sup && c.dkind != 2 { sup + 1 + pick(c.d_choice, max - sup) } else { max + 1 + pick(c.d_choice, 3) };
            let mut req = info.requested_bounds.clone().unwrap_or_default();
            let at = pick(c.d2_choice, req.len() + 1);
            req.insert(at, d);
            ctx.label(if d <= max { "requested_bound_in_(supported,max]" } else { "requested_bound_beyond_max" });
            ctx.nontrivial_if(d <= max);
            ctx.derived = Some(json!({"scheme": S::NAME, "key": info.desc, "requested_bounds": req, "offending_bound": d}));
            ctx.asserts += 1;
            match guard(|| S::PC::trim(&keys.pp, sup, info.hiding, Some(&req))) {
                Out::Ok((ck, _vk)) => {
                    // The key was served (MarlinKZG10 does serve bounds in (supported, max]: the shifted
                    // powers reach up to max_degree; SonicKZG10 refuses them). Whatever trim does, the
                    // committer must refuse a polynomial whose degree exceeds the supported degree.
                    ctx.label("trim_served_bound_beyond_supported");
                    let deg = match c.deg_rel {
                        0 => pick(c.deg_choice, sup + 1),
                        1 => (sup + 1).min(d),
                        _ => d.min(max),
                    };
                    ctx.label(if deg > sup { "degree_above_supported" } else { "degree_within_supported" });
                    let h = if c.hiding == 0 { None } else { Some(1) };
                    let lp = LabeledPolynomial::new("p".into(), rand_poly::<S>(deg, c.seed), Some(d), h);
                    let mut r = rng(c.seed);
                    let out = guard(|| S::PC::commit(&ck, [&lp], Some(&mut r)));
                    if let (Out::Ok(_), true) = (&out, deg > sup) {
                        return ctx.fail(
                            sig(P, S::NAME, "commit", "degree_beyond_supported_accepted"),
                            format!("key trimmed with bound {d} > supported {sup} (max {max}): commit succeeded for degree {deg} under that bound"),
                        );
                    }
                }
                _ => ctx.label("trim_refused"),
            }
            Ok(())
        }
        // ------------------------------------------------------------------------------ mislabelled bound
        1 => {
            let could_untrim = c.variant % 3 == 0 && !enforced.is_empty();
            if enforced.len() < 2 && !could_untrim {
                ctx.label("fewer_than_two_bounds");
                return Ok(());
            }
            let mut d1 = enforced[pick(c.d_choice, enforced.len())];
            // one case in three: presented under a bound the key was *not* trimmed for - any value in
            // 0..=supported outside the enforced set, or a bound beyond the supported degree (just beyond,
            // well beyond, the largest integer); the verifier must refuse it, not round or clamp it
            let mut untrimmed: Vec<usize> = if info.any_bound { vec![] } else { (0..=sup).filter(|b| !enforced.contains(b)).collect() };
            let inside = untrimmed.len();
            untrimmed.extend([sup + 1, sup + 2, sup + 9, 2 * sup + 1, usize::MAX]);
            let use_untrimmed = c.variant % 3 == 0;
            let at = if use_untrimmed && (inside == 0 || c.d2_choice % 2 == 1) { inside + pick(c.d2_choice / 2, 5) } else { pick(c.d2_choice, inside.max(1)) };
            if use_untrimmed && at >= inside && c.deg_choice % 2 == 0 {
                // made under the largest enforced bound (for IPA the supported degree itself, where the
                // shift is trivial)
                d1 = *enforced.iter().max().unwrap();
            }
            let others: Vec<usize> = enforced.iter().cloned().filter(|b| *b != d1).collect();
            let d = if use_untrimmed { untrimmed[at] } else { others[pick(c.d2_choice, others.len())] };
            ctx.label_if(use_untrimmed, "presented_bound_not_enforced");
            ctx.label_if(use_untrimmed && d > sup, "presented_bound_beyond_supported");
            // degree: within both bounds, or (untrimmed case) anywhere up to the committed bound
            let cap = if use_untrimmed { d1 } else { d1.min(d) };
            let deg = pick(c.deg_choice, cap + 1);
            let h = hiding_for::<S>(&info, Some(cap), c.hiding);
            let p = rand_poly::<S>(deg, c.seed);
            let mut g = rng(c.seed ^ 0x33);
            let mut z = S::F::rand(&mut g);
            let mut tries = 0;
            while !S::admissible(&z, &p.evaluate(&z), d, d1) && tries < 8 {
                z = S::F::rand(&mut g);
                tries += 1;
            }
            if !S::admissible(&z, &p.evaluate(&z), d, d1) {
                ctx.label("no_admissible_point");
                return Ok(());
            }
            let v = p.evaluate(&z);
            ctx.label_if(h.is_some(), "has_hiding");
            ctx.label_if(d < d1, "presented_bound_smaller");
            ctx.label_if(d > d1, "presented_bound_larger");
            ctx.nontrivial_if(Some(d) != maxb || h.is_some());
            ctx.derived = Some(json!({"scheme": S::NAME, "key": info.desc, "committed_under": d1, "presented_as": d, "degree": deg, "hiding": h}));
            let lp1 = LabeledPolynomial::new("p".into(), p.clone(), Some(d1), h);
            let Out::Ok((cm, st)) = commit1::<S>(&keys, &lp1, c.seed) else {
                ctx.label("commit_failed(C01)");
                return Ok(());
            };
            let cm_d = LabeledCommitment::new("p".into(), cm.commitment().clone(), Some(d));
            // (a) honest proof made under d1
            if let Out::Ok(pr) = open1::<S>(&keys, &lp1, &cm, &st, &z, c.seed) {
                if !accepted(&check1::<S>(&keys, &cm, &z, v, &pr)) {
                    ctx.label("honest_not_accepted(C01)");
                    return Ok(());
                }
                let r = check1::<S>(&keys, &cm_d, &z, v, &pr);
                expect_reject(ctx, P, S::NAME, "check", "mislabelled_bound(honest_proof)", &r, || {
                    format!("committed under {d1}, presented as {d}, degree {deg}")
                })?;
            }
            // (b) the library's prover run with the polynomial relabelled d and the state from d1
            let lp_d = LabeledPolynomial::new("p".into(), p.clone(), Some(d), h);
            match open1::<S>(&keys, &lp_d, &cm_d, &st, &z, c.seed) {
                Out::Ok(pr) => {
                    ctx.label("relabelled_prover_produced_a_proof");
                    let r = check1::<S>(&keys, &cm_d, &z, v, &pr);
                    expect_reject(ctx, P, S::NAME, "check", "mislabelled_bound(relabelled_prover)", &r, || {
                        format!("committed under {d1}, prover and verifier use {d}, degree {deg}")
                    })?;
                }
                _ => ctx.label("relabelled_prover_refused"),
            }
            Ok(())
        }
        // ------------------------------------------------------------------------------ shifted part surgery
        _ => {
            if enforced.is_empty() {
                ctx.label("no_bounds_in_key");
                return Ok(());
            }
            let d = enforced[pick(c.d_choice, enforced.len())];
            if d < 1 {
                return Ok(());
            }
            let deg = 1 + pick(c.deg_choice, d); // non-constant: the witness is non-zero
            let h = hiding_for::<S>(&info, Some(d), c.hiding);
            let p = rand_poly::<S>(deg, c.seed);
            let q = rand_poly::<S>(deg, c.seed ^ 0x44);
            let mut g = rng(c.seed ^ 0x55);
            let mut z = S::F::rand(&mut g);
            while !S::admissible(&z, &p.evaluate(&z), d, d + 1) {
                z = S::F::rand(&mut g);
            }
            let v = p.evaluate(&z);
            let lp = LabeledPolynomial::new("p".into(), p.clone(), Some(d), h);
            let lq = LabeledPolynomial::new("p".into(), q.clone(), Some(d), h);
            let Out::Ok((cm, st)) = commit1::<S>(&keys, &lp, c.seed) else { return Ok(()) };
            let Out::Ok((cq, _)) = commit1::<S>(&keys, &lq, c.seed ^ 1) else { return Ok(()) };
            let Out::Ok(pr) = open1::<S>(&keys, &lp, &cm, &st, &z, c.seed) else { return Ok(()) };
            if !accepted(&check1::<S>(&keys, &cm, &z, v, &pr)) {
                ctx.label("honest_not_accepted(C01)");
                return Ok(());
            }
            ctx.nontrivial_if(Some(d) != maxb || h.is_some());
            ctx.derived = Some(json!({"scheme": S::NAME, "key": info.desc, "bound": d, "degree": deg, "hiding": h, "variant": c.variant}));
            let same = |a: &Comm<S>, b: &Comm<S>| ser(a) == ser(b);
            match c.variant {
                4 | 5 => {
                    // a polynomial committed and opened WITHOUT a bound (degree above d where the key allows),
                    // presented to the verifier under bound d with no degree-bound part
                    let deg_u = if d < sup { d + 1 + pick(c.d2_choice, sup - d) } else { deg };
                    let hu = hiding_for::<S>(&info, None, c.hiding);
                    let pu = rand_poly::<S>(deg_u, c.seed ^ 0x66);
                    let lpu = LabeledPolynomial::new("p".into(), pu.clone(), None, hu);
                    let Out::Ok((cu, su)) = commit1::<S>(&keys, &lpu, c.seed) else { return Ok(()) };
                    let Out::Ok(pru) = open1::<S>(&keys, &lpu, &cu, &su, &z, c.seed) else { return Ok(()) };
                    let vu = pu.evaluate(&z);
                    if !accepted(&check1::<S>(&keys, &cu, &z, vu, &pru)) {
                        ctx.label("honest_not_accepted(C01)");
                        return Ok(());
                    }
                    if S::drop_shifted(cu.commitment()).is_none() && d == info.max_degree {
                        ctx.label("trivial_shift_skipped");
                        return Ok(());
                    }
                    let c2 = LabeledCommitment::new("p".into(), cu.commitment().clone(), Some(d));
                    ctx.label("unbounded_commitment_presented_under_bound");
                    ctx.label_if(deg_u > d, "degree_exceeds_presented_bound");
                    let r = check1::<S>(&keys, &c2, &z, vu, &pru);
                    expect_reject(ctx, P, S::NAME, "check", "unbounded_presented_under_bound", &r, || {
                        format!("degree {deg_u} committed without bound, presented under bound {d}")
                    })?;
                    // and through the batch entry point
                    let mut qs = std::collections::BTreeSet::new();
                    qs.insert(("p".to_string(), ("z".to_string(), z.clone())));
                    let mut ev = std::collections::BTreeMap::new();
                    ev.insert(("p".to_string(), z.clone()), vu);
                    let bp: BatchProof<S> = vec![pru.clone()].into();
                    let mut sp = sponge::<S::F>(0);
                    let rb = guard(|| S::PC::batch_check(&keys.vk, [&c2], &qs, &ev, &bp, &mut sp, &mut rng(3)));
                    expect_reject(ctx, P, S::NAME, "batch_check", "unbounded_presented_under_bound", &rb, || {
                        format!("degree {deg_u} committed without bound, presented under bound {d}")
                    })?;
                    // and inside a two-term combination [1*p + k*q]: the prover opens it over the unbounded
                    // polynomials, the verifier is handed p's commitment relabelled with bound d
                    {
                        use ark_poly_commit::{LCTerm, LinearCombination};
                        let qu = rand_poly::<S>(pick(c.deg_choice, sup + 1), c.seed ^ 0x67);
                        let lqu = LabeledPolynomial::new("q".into(), qu.clone(), None, hu);
                        let Out::Ok((cq, sq)) = commit1::<S>(&keys, &lqu, c.seed ^ 2) else { return Ok(()) };
                        let k = S::F::from(3u64);
                        let lc = LinearCombination::new("lc", vec![(S::F::one(), LCTerm::PolyLabel("p".into())), (k, LCTerm::PolyLabel("q".into()))]);
                        let mut qs = std::collections::BTreeSet::new();
                        qs.insert(("lc".to_string(), ("z".to_string(), z.clone())));
                        let mut ev = std::collections::BTreeMap::new();
                        ev.insert(("lc".to_string(), z.clone()), vu + k * qu.evaluate(&z));
                        let mut sp = sponge::<S::F>(0);
                        let mut r1 = rng(c.seed ^ 4);
                        let opened = guard(|| S::PC::open_combinations(&keys.ck, [&lc], [&lpu, &lqu], [&cu, &cq], &qs, &mut sp, [&su, &sq], Some(&mut r1)));
                        if let Out::Ok(lp) = opened {
                            let mut sp = sponge::<S::F>(0);
                            let rc = guard(|| S::PC::check_combinations(&keys.vk, [&lc], [&c2, &cq], &qs, &ev, &lp, &mut sp, &mut rng(5)));
                            ctx.label("unbounded_commitment_presented_under_bound_inside_a_combination");
                            expect_reject(ctx, P, S::NAME, "check_combinations", "unbounded_presented_under_bound", &rc, || {
                                format!("degree {deg_u} committed without bound, presented under bound {d} as a term of p + 3q")
                            })?;
                        }
                    }
                    Ok(())
                }
                0 => {
                    // bound dropped from the label (and the separate part, where there is one)
                    let base = S::drop_shifted(cm.commitment()).unwrap_or_else(|| cm.commitment().clone());
                    let shift_is_trivial = S::drop_shifted(cm.commitment()).is_none() && d == info.max_degree;
                    if shift_is_trivial {
                        ctx.label("trivial_shift_skipped");
                        return Ok(());
                    }
                    let c2 = LabeledCommitment::new("p".into(), base, None);
                    ctx.label("bound_dropped");
                    let r = check1::<S>(&keys, &c2, &z, v, &pr);
                    expect_reject(ctx, P, S::NAME, "check", "degree_bound_dropped", &r, || format!("bound {d}, degree {deg}"))
                }
                1 => {
                    // separate part removed but the label kept
                    let Some(base) = S::drop_shifted(cm.commitment()) else {
                        ctx.label("no_separate_shifted_part");
                        return Ok(());
                    };
                    let c2 = LabeledCommitment::new("p".into(), base, Some(d));
                    ctx.label("shifted_part_removed_label_kept");
                    let r = check1::<S>(&keys, &c2, &z, v, &pr);
                    expect_reject(ctx, P, S::NAME, "check", "shifted_part_missing", &r, || format!("bound {d}"))
                }
                2 => {
                    let Some(base) = S::take_shifted_from(cm.commitment(), cq.commitment()) else {
                        // Sonic: the commitment is the shifted part; swapping it is a commitment replacement (C02)
                        ctx.label("no_separate_shifted_part");
                        return Ok(());
                    };
                    if same(&base, cm.commitment()) {
                        return Ok(());
                    }
                    let c2 = LabeledCommitment::new("p".into(), base, Some(d));
                    ctx.label("shifted_part_of_other_polynomial");
                    let r = check1::<S>(&keys, &c2, &z, v, &pr);
                    expect_reject(ctx, P, S::NAME, "check", "shifted_part_swapped", &r, || format!("bound {d}"))
                }
                _ => {
                    let Some(base) = S::shifted_from_plain(cm.commitment()) else {
                        ctx.label("no_separate_shifted_part");
                        return Ok(());
                    };
                    if same(&base, cm.commitment()) {
                        ctx.label("shifted_equals_plain_skipped");
                        return Ok(());
                    }
                    let c2 = LabeledCommitment::new("p".into(), base, Some(d));
                    ctx.label("shifted_part_replaced_by_plain");
                    let r = check1::<S>(&keys, &c2, &z, v, &pr);
                    expect_reject(ctx, P, S::NAME, "check", "shifted_part_replaced_by_plain", &r, || format!("bound {d}"))
                }
            }
        }
    }
}

pub fn spec() -> PropertySpec {
    let mut units: Vec<Box<dyn Unit>> = Vec::new();
    macro_rules! add {
        ($s:ty) => {
            units.push(PropUnit::new(
                format!("C04:{}:bounds", <$s as Scheme>::NAME),
                600,
                6000,
                4,
                |_| case().boxed(),
                |c: &Case, ctx: &mut CaseCtx| check_case::<$s>(c, ctx),
            ));
        };
    }
    add!(Marlin);
    add!(Sonic);
    add!(Ipa);
    PropertySpec {
        id: "C04",
        rule: "(Every verification of a case goes through check (half of the cases), batch_check on a one-label query set, or check_combinations on the single-term combination [1*p] (a quarter each).) (iv) key requests whose enforced-bound list contains a bound in (supported, max] or beyond max (Marlin, Sonic): if trim serves such a key (MarlinKZG10 does for bounds <= max, by design), commit of a polynomial whose degree exceeds the supported degree must still fail. Mislabel group: one case in three presents the commitment under a bound outside the enforced set - inside 0..=supported, or beyond the supported degree (+1, +2, +9, 2*supported+1, usize::MAX; all three schemes, half of them with the commitment made under the largest enforced bound). Three groups per scheme (Marlin, Sonic, IPA) over generated keys (max degree, supported degree, enforced set B, unsorted/duplicated): (i) admission grid - declared bound d drawn from B / from 1..=supported outside B / beyond supported, degree in {d-1,d,d+1}: commit (and open with a relabelled polynomial) must return Err or abort exactly when deg > d or d not in B or deg > supported, and an admissible boundary case must commit, open and verify; (ii) mislabel - commit under d' in B, present as d in B, d != d', deg <= min(d,d'), with the honest proof and with the library prover run on the relabelled polynomial and the old state: not accepted; (iii) the degree-bound part dropped (with and without the label), taken from another polynomial, or replaced by the plain commitment: not accepted. Points for (ii),(iii) are admissible by construction (Marlin, Sonic: p(z) != 0; IPA: also z != 0 and z^(d-d') != 1); polynomials in (iii) are non-constant. Non-trivial: d != max(B) or hiding present, and for (i) |deg - d| <= 1.",
        assumptions: vec![
            "enforced sets stay inside the documented trim domain 1..=supported_degree",
            "degree-bound enforcement of Marlin and IPA is a polynomial identity at the query point: roots of p and points with z^(d-d')=1 are excluded as the modules document",
        ],
        units,
        watchdog_s: (1200, 7200),
    }
}

#[allow(dead_code)]
fn _p<F: PrimeField>(_: F) {}
#[allow(dead_code)]
fn _c<C: PCCommitment>(_: C) {}
