//! C09 — setup and trim produce well-formed, mutually consistent keys.

use super::c01::{ml_keys, sk_keys};
use super::common::*;
use crate::engine::{CaseCtx, Failure, PropUnit, PropertySpec, Unit};
use crate::lincode::{self, MBrakedown, MSprs};
use crate::model::{key_raw, KeyRaw};
use crate::schemes::*;
use crate::types::*;
use crate::util::{guard, guard_plain, pick, rng, ser, Out};
use ark_ec::{pairing::Pairing, AffineRepr, CurveGroup};
use ark_ff::{PrimeField, UniformRand, Zero};
use ark_poly::DenseUVPolynomial;
use ark_poly_commit::streaming_kzg::CommitterKeyStream;
use ark_poly_commit::{
    ipa_pc, kzg10, LabeledPolynomial, PCCommitterKey, PCUniversalParams, PCVerifierKey, PolynomialCommitment,
};
use ark_serialize::{CanonicalDeserialize, CanonicalSerialize};
use blake2::Blake2s256;
use digest::Digest;
use proptest::prelude::*;
use rand_core::RngCore;
use serde::{Deserialize, Serialize};
use serde_json::json;

const P: &str = "C09";

#[derive(Clone, Debug, Serialize, Deserialize)]
pub struct Case {
    pub key: KeyRaw,
    pub key2: KeyRaw,
    pub sel: u64,
}

pub fn case() -> impl Strategy<Value = Case> {
    (key_raw(), key_raw(), any::<u64>()).prop_map(|(key, key2, sel)| Case { key, key2, sel })
}

/// random 128-bit combination of points
fn rlc<A: AffineRepr>(pts: &[A], seed: u64) -> A::Group {
    let mut g = rng(seed);
    let mut acc = A::Group::zero();
    for p in pts {
        let r = A::ScalarField::from(((g.next_u64() as u128) << 64) | g.next_u64() as u128);
        acc += p.mul_bigint(r.into_bigint());
    }
    acc
}

/// a[i] == x * b[i] for all i, where h2x = x * h2 (one batched pairing check, then a scan to locate a failure)
fn ratio_g1(a: &[G1A], b: &[G1A], h2: G2A, h2x: G2A, seed: u64) -> Option<usize> {
    let lhs = E::pairing(rlc(a, seed), h2);
    let rhs = E::pairing(rlc(b, seed), h2x);
    if lhs == rhs {
        return None;
    }
    for i in 0..a.len() {
        if E::pairing(a[i], h2) != E::pairing(b[i], h2x) {
            return Some(i);
        }
    }
    Some(usize::MAX)
}

fn check_kzg_srs(ctx: &mut CaseCtx, scheme: &str, pp: &kzg10::UniversalParams<E>, max: usize, g2_powers: bool, seed: u64) -> Result<(), Failure> {
    ctx.check(pp.powers_of_g.len() == max + 1 && pp.max_degree() == max, sig(P, scheme, "setup", "power_count"), || {
        format!("{} G1 powers for max_degree {max}", pp.powers_of_g.len())
    })?;
    ctx.check(pp.powers_of_gamma_g.len() == max + 2 && (0..max + 2).all(|i| pp.powers_of_gamma_g.contains_key(&i)), sig(P, scheme, "setup", "gamma_power_count"), || {
        format!("{} gamma powers for max_degree {max}", pp.powers_of_gamma_g.len())
    })?;
    ctx.check(!pp.powers_of_g[0].is_zero() && !pp.h.is_zero() && !pp.powers_of_gamma_g[&0].is_zero(), sig(P, scheme, "setup", "identity_generator"), || "identity generator".into())?;
    let g = &pp.powers_of_g;
    if let Some(i) = ratio_g1(&g[1..], &g[..max], pp.h, pp.beta_h, seed) {
        return ctx.fail(sig(P, scheme, "setup", "g1_power_chain"), format!("powers_of_g[{}] is not beta * powers_of_g[{}]", i.wrapping_add(1), i));
    }
    let gam: Vec<G1A> = (0..max + 2).map(|i| pp.powers_of_gamma_g[&i]).collect();
    if let Some(i) = ratio_g1(&gam[1..], &gam[..max + 1], pp.h, pp.beta_h, seed ^ 1) {
        return ctx.fail(sig(P, scheme, "setup", "gamma_power_chain"), format!("powers_of_gamma_g[{}] is not beta * powers_of_gamma_g[{}]", i.wrapping_add(1), i));
    }
    ctx.asserts += 2;
    if g2_powers {
        ctx.check(pp.neg_powers_of_h.len() == max + 1, sig(P, scheme, "setup", "neg_power_count"), || format!("{} negative G2 powers", pp.neg_powers_of_h.len()))?;
        // e(G_i, beta^{-i} H) == e(G_0, H)
        let base = E::pairing(g[0], pp.h);
        for i in 0..=max {
            let Some(nh) = pp.neg_powers_of_h.get(&i) else {
                return ctx.fail(sig(P, scheme, "setup", "neg_power_missing"), format!("neg_powers_of_h[{i}] missing"));
            };
            ctx.check(E::pairing(g[i], *nh) == base, sig(P, scheme, "setup", "neg_power_chain"), || format!("neg_powers_of_h[{i}] is not beta^-{i} H"))?;
        }
    } else {
        ctx.check(pp.neg_powers_of_h.is_empty(), sig(P, scheme, "setup", "unexpected_neg_powers"), || "negative powers present".into())?;
    }
    // prepared elements behave as the prepared plain ones
    let t = E::multi_pairing([g[1]], [pp.prepared_h.clone()]);
    let t2 = E::multi_pairing([g[0]], [pp.prepared_beta_h.clone()]);
    ctx.check(t == E::pairing(g[1], pp.h) && t2 == E::pairing(g[0], pp.beta_h) && t == t2, sig(P, scheme, "setup", "prepared_elements"), || {
        "prepared_h / prepared_beta_h do not behave like h / beta_h".into()
    })
}

fn uni_shape(k: &KeyRaw) -> (usize, usize, Option<Vec<usize>>, usize) {
    let max = UNI_DEGS[pick(k.a, UNI_DEGS.len())];
    let supported = 1 + pick(k.b, max);
    let bounds = k.bounds.as_ref().map(|v| v.iter().map(|r| 1 + pick(*r, supported)).collect::<Vec<_>>());
    let hiding = pick((k.hiding as u16) << 8, max.min(6) + 1);
    (max, supported, bounds, hiding)
}

fn sorted_dedup(b: &Option<Vec<usize>>) -> Option<Vec<usize>> {
    b.as_ref().map(|v| {
        let mut v = v.clone();
        v.sort();
        v.dedup();
        v
    })
}

fn classify_key(ctx: &mut CaseCtx, max: usize, supported: usize, bounds: &Option<Vec<usize>>) {
    let sd = sorted_dedup(bounds);
    let distinct = sd.as_ref().map(|v| v.len()).unwrap_or(0);
    ctx.label_if(supported < max, "supported_lt_max");
    ctx.label_if(bounds.is_some() && &sd != bounds, "unsorted_or_dup_bounds");
    ctx.label_if(bounds.is_none(), "bounds_none");
    ctx.label_if(bounds.as_ref().map(|b| b.is_empty()).unwrap_or(false), "bounds_empty");
    ctx.nontrivial_if((supported < max && distinct >= 2) || (bounds.is_some() && &sd != bounds));
}

fn uni_poly(deg: usize, seed: u64) -> UniPoly {
    let mut g = rng(seed);
    let mut c: Vec<Fr> = (0..=deg).map(|_| Fr::rand(&mut g)).collect();
    if c[deg].is_zero() {
        c[deg] = Fr::from(1u64);
    }
    crate::util::low_zeros(&mut c, seed);
    UniPoly::from_coefficients_vec(c)
}

// ------------------------------------------------------------------------------------------------
// Marlin
// ------------------------------------------------------------------------------------------------

fn check_marlin(c: &Case, ctx: &mut CaseCtx) -> Result<(), Failure> {
    let (max, supported, bounds, hiding) = uni_shape(&c.key);
    classify_key(ctx, max, supported, &bounds);
    ctx.derived = Some(json!({"scheme":"marlin","max_degree":max,"supported":supported,"bounds":bounds,"hiding":hiding}));
    let seed = c.key.seed as u64;
    let pp = match memo(format!("marlin:{}:{}", max, seed), || guard(|| MarlinPC::setup(max, None, &mut rng(0xa11ce + seed))).need("setup")) {
        Ok(p) => p,
        Err(e) => return ctx.fail(sig(P, "marlin", "setup", "refused"), e),
    };
    check_kzg_srs(ctx, "marlin", &pp, max, false, c.sel)?;
    let (ck, vk) = match guard(|| MarlinPC::trim(&pp, supported, hiding, bounds.as_deref())) {
        Out::Ok(k) => k,
        o => return ctx.fail(sig(P, "marlin", "trim", "in_range_refused"), o.describe_nodebug()),
    };
    ctx.check(ck.powers == pp.powers_of_g[..=supported] && ck.supported_degree() == supported && ck.max_degree() == max, sig(P, "marlin", "trim", "powers_prefix"), || "committer powers are not the SRS prefix ..=supported".into())?;
    ctx.check(ck.powers_of_gamma_g == (0..=hiding + 1).map(|i| pp.powers_of_gamma_g[&i]).collect::<Vec<_>>(), sig(P, "marlin", "trim", "gamma_prefix"), || "gamma powers are not the prefix ..=hiding+1".into())?;
    ctx.check(vk.vk.g == pp.powers_of_g[0] && vk.vk.gamma_g == pp.powers_of_gamma_g[&0] && vk.vk.h == pp.h && vk.vk.beta_h == pp.beta_h, sig(P, "marlin", "trim", "vk_generators"), || "verifier key generators differ from the SRS".into())?;
    ctx.check(vk.supported_degree() == supported && vk.max_degree() == max, sig(P, "marlin", "trim", "vk_degree_report"), || "verifier key degree report".into())?;
    let sd = sorted_dedup(&bounds).filter(|v| !v.is_empty());
    match &sd {
        Some(b) => {
            let maxb = *b.last().unwrap();
            ctx.check(ck.enforced_degree_bounds.as_ref() == Some(b), sig(P, "marlin", "trim", "bounds_not_sorted_dedup"), || format!("enforced bounds {:?} vs {:?}", ck.enforced_degree_bounds, b))?;
            ctx.check(ck.shifted_powers.as_deref() == Some(&pp.powers_of_g[max - maxb..]), sig(P, "marlin", "trim", "shifted_window"), || format!("shifted powers are not the SRS window from max - {maxb}"))?;
            let want: Vec<(usize, G1A)> = b.iter().map(|d| (*d, pp.powers_of_g[max - d])).collect();
            ctx.check(vk.degree_bounds_and_shift_powers.as_ref() == Some(&want), sig(P, "marlin", "trim", "shift_powers"), || "verifier shift powers are not G_{max-b} per bound".into())?;
            for d in b {
                ctx.check(vk.get_shift_power(*d) == Some(pp.powers_of_g[max - d]), sig(P, "marlin", "trim", "get_shift_power"), || format!("get_shift_power({d})"))?;
            }
        }
        None => {
            ctx.check(ck.shifted_powers.is_none() && vk.degree_bounds_and_shift_powers.is_none(), sig(P, "marlin", "trim", "unexpected_shift_material"), || "shift material without bounds".into())?;
        }
    }
    // prepared verifier key / prepared commitment: doubling chains of the plain elements
    {
        use ark_poly_commit::{PCPreparedCommitment, PCPreparedVerifierKey};
        let bits = <Fr as PrimeField>::MODULUS_BIT_SIZE as usize;
        let chain_ok = |start: G1A, chain: &[G1A]| -> bool {
            if chain.len() != bits {
                return false;
            }
            let mut cur = start.into_group();
            // spot-check the whole chain with one random combination instead of 255 comparisons per element
            for x in chain {
                if x.into_group() != cur {
                    return false;
                }
                cur = cur + cur;
            }
            true
        };
        if let Out::Ok(pvk) = guard_plain(|| ark_poly_commit::marlin_pc::PreparedVerifierKey::<E>::prepare(&vk)) {
            ctx.check(chain_ok(vk.vk.g, &pvk.prepared_vk.prepared_g), sig(P, "marlin", "prepare", "prepared_g"), || "prepared_g is not the doubling chain of g over the scalar bits".into())?;
            ctx.check(pvk.max_degree == max && pvk.supported_degree == supported, sig(P, "marlin", "prepare", "degree_report"), || "prepared key degree report".into())?;
            match (&vk.degree_bounds_and_shift_powers, &pvk.prepared_degree_bounds_and_shift_powers) {
                (Some(plain), Some(prep)) => {
                    ctx.check(plain.len() == prep.len() && plain.iter().zip(prep).all(|((d, g), (pd, ch))| d == pd && chain_ok(*g, ch)), sig(P, "marlin", "prepare", "shift_powers"), || {
                        "prepared shift powers are not the doubling chains of the plain shift powers, bound by bound".into()
                    })?;
                }
                (None, None) => {}
                _ => return ctx.fail(sig(P, "marlin", "prepare", "shift_powers"), "presence of shift powers differs between key and prepared key"),
            }
            let e1 = E::pairing(vk.vk.g, vk.vk.beta_h);
            ctx.check(E::multi_pairing([vk.vk.g], [pvk.prepared_vk.prepared_beta_h.clone()]) == e1 && E::multi_pairing([vk.vk.g], [pvk.prepared_vk.prepared_h.clone()]) == E::pairing(vk.vk.g, vk.vk.h), sig(P, "marlin", "prepare", "prepared_g2"), || "prepared G2 elements do not pair like h, beta_h".into())?;
            ctx.label("prepared_key_checked");
        } else {
            return ctx.fail(sig(P, "marlin", "prepare", "abort"), "PreparedVerifierKey::prepare aborted");
        }
        let some = LabeledPolynomial::new("p".into(), uni_poly(supported.min(3), c.sel ^ 9), None, None);
        if let Out::Ok((cm, _)) = guard(|| MarlinPC::commit(&ck, [&some], None)) {
            let kc = cm[0].commitment().comm;
            if let Out::Ok(pc) = guard_plain(|| ark_poly_commit::kzg10::PreparedCommitment::<E>::prepare(&kc)) {
                ctx.check(chain_ok(kc.0, &pc.0), sig(P, "kzg10", "prepare", "prepared_commitment"), || "prepared commitment is not the doubling chain of the commitment".into())?;
            }
            let _ = guard_plain(|| ark_poly_commit::marlin_pc::PreparedCommitment::<E>::prepare(cm[0].commitment()));
        }
    }
    // truthful degree report
    let ok = LabeledPolynomial::new("p".into(), uni_poly(supported, c.sel), None, None);
    let r = guard(|| MarlinPC::commit(&ck, [&ok], None));
    ctx.check(matches!(r, Out::Ok(_)), sig(P, "marlin", "commit", "supported_degree_refused"), || format!("degree {supported} refused: {}", r.describe_nodebug()))?;
    let big = LabeledPolynomial::new("p".into(), uni_poly(supported + 1, c.sel), None, None);
    let r = guard(|| MarlinPC::commit(&ck, [&big], None));
    ctx.check(!matches!(r, Out::Ok(_)), sig(P, "marlin", "commit", "degree_above_supported_accepted"), || format!("degree {} accepted by a key reporting supported degree {supported}", supported + 1))?;
    // a second key from the same SRS interoperates
    let (_, sup2, b2, h2) = {
        let mut k2 = c.key2.clone();
        k2.a = c.key.a;
        uni_shape(&k2)
    };
    if let Out::Ok((_ck2, vk2)) = guard(|| MarlinPC::trim(&pp, sup2, h2, b2.as_deref())) {
        let deg = supported.min(sup2);
        let common: Option<usize> = sd.as_ref().and_then(|b| b.iter().cloned().find(|d| *d >= deg && sorted_dedup(&b2).map(|x| x.contains(d)).unwrap_or(false)));
        let lp = LabeledPolynomial::new("p".into(), uni_poly(deg, c.sel ^ 3), common, None);
        if let Out::Ok((cm, st)) = guard(|| MarlinPC::commit(&ck, [&lp], None)) {
            let z = Fr::rand(&mut rng(c.sel));
            let mut sp = sponge::<Fr>(0);
            if let Out::Ok(pr) = guard(|| MarlinPC::open(&ck, [&lp], &cm, &z, &mut sp, &st, None)) {
                use ark_poly::Polynomial;
                let v = lp.polynomial().evaluate(&z);
                let mut sp = sponge::<Fr>(0);
                let r = guard(|| MarlinPC::check(&vk2, &cm, &z, [v], &pr, &mut sp, None));
                ctx.check(matches!(r, Out::Ok(true)), sig(P, "marlin", "trim", "keys_do_not_interoperate"), || {
                    format!("commit/open with key (supported {supported}, bounds {bounds:?}), check with key (supported {sup2}, bounds {b2:?}), bound {common:?}: {}", r.describe())
                })?;
                ctx.label("interop_checked");
            }
        }
    }
    // out-of-range requests
    let r = guard(|| MarlinPC::trim(&pp, max + 1 + (c.sel % 3) as usize, hiding, bounds.as_deref()));
    ctx.check(!matches!(r, Out::Ok(_)), sig(P, "marlin", "trim", "supported_above_max_accepted"), || "trim(supported > max_degree) returned keys".into())?;
    let r = guard(|| MarlinPC::trim(&pp, supported, max + 2 + (c.sel % 3) as usize, bounds.as_deref()));
    ctx.check(!matches!(r, Out::Ok(_)), sig(P, "marlin", "trim", "hiding_above_max_accepted"), || "trim(hiding bound > max_degree + 1) returned keys".into())?;
    let r = guard(|| MarlinPC::trim(&pp, supported, hiding, Some(&[max + 1 + (c.sel % 3) as usize])));
    ctx.check(!matches!(r, Out::Ok(_)), sig(P, "marlin", "trim", "bound_above_max_accepted"), || "trim(bound > max_degree) returned keys".into())?;
    Ok(())
}

// ------------------------------------------------------------------------------------------------
// Sonic
// ------------------------------------------------------------------------------------------------

fn check_sonic(c: &Case, ctx: &mut CaseCtx) -> Result<(), Failure> {
    let (max, supported, bounds, hiding) = uni_shape(&c.key);
    classify_key(ctx, max, supported, &bounds);
    ctx.derived = Some(json!({"scheme":"sonic","max_degree":max,"supported":supported,"bounds":bounds,"hiding":hiding}));
    let seed = c.key.seed as u64;
    let pp = match memo(format!("sonic:{}:{}", max, seed), || guard(|| SonicPC::setup(max, None, &mut rng(0xa11ce + seed))).need("setup")) {
        Ok(p) => p,
        Err(e) => return ctx.fail(sig(P, "sonic", "setup", "refused"), e),
    };
    check_kzg_srs(ctx, "sonic", &pp, max, true, c.sel)?;
    let (ck, vk) = match guard(|| SonicPC::trim(&pp, supported, hiding, bounds.as_deref())) {
        Out::Ok(k) => k,
        o => return ctx.fail(sig(P, "sonic", "trim", "in_range_refused"), o.describe_nodebug()),
    };
    ctx.check(ck.powers_of_g == pp.powers_of_g[..=supported] && ck.supported_degree() == supported && ck.max_degree() == max, sig(P, "sonic", "trim", "powers_prefix"), || "committer powers are not the SRS prefix".into())?;
    ctx.check(ck.powers_of_gamma_g == (0..=hiding + 1).map(|i| pp.powers_of_gamma_g[&i]).collect::<Vec<_>>(), sig(P, "sonic", "trim", "gamma_prefix"), || "gamma prefix".into())?;
    ctx.check(vk.g == pp.powers_of_g[0] && vk.gamma_g == pp.powers_of_gamma_g[&0] && vk.h == pp.h && vk.beta_h == pp.beta_h && vk.supported_degree() == supported && vk.max_degree() == max, sig(P, "sonic", "trim", "vk_generators"), || "verifier key".into())?;
    let sd = sorted_dedup(&bounds).filter(|v| !v.is_empty());
    match &sd {
        Some(b) => {
            let maxb = *b.last().unwrap();
            ctx.check(ck.enforced_degree_bounds.as_ref() == Some(b), sig(P, "sonic", "trim", "bounds_not_sorted_dedup"), || "enforced bounds".into())?;
            ctx.check(ck.shifted_powers_of_g.as_deref() == Some(&pp.powers_of_g[max - maxb..]), sig(P, "sonic", "trim", "shifted_window"), || "shifted window".into())?;
            let want: Vec<(usize, G2A)> = b.iter().map(|d| (*d, pp.neg_powers_of_h[&(max - d)])).collect();
            ctx.check(vk.degree_bounds_and_neg_powers_of_h.as_ref() == Some(&want), sig(P, "sonic", "trim", "shift_powers"), || "verifier shift elements are not beta^-(max-b) H per bound".into())?;
            let sg = ck.shifted_powers_of_gamma_g.as_ref();
            for d in b {
                let want: Vec<G1A> = (0..=hiding + 1).filter(|i| max - d + i < max + 2).map(|i| pp.powers_of_gamma_g[&(max - d + i)]).collect();
                ctx.check(sg.and_then(|m| m.get(d)) == Some(&want), sig(P, "sonic", "trim", "shifted_gamma_window"), || format!("shifted gamma window for bound {d}"))?;
            }
        }
        None => {
            ctx.check(ck.shifted_powers_of_g.is_none() && vk.degree_bounds_and_neg_powers_of_h.is_none(), sig(P, "sonic", "trim", "unexpected_shift_material"), || "shift material without bounds".into())?;
        }
    }
    let ok = LabeledPolynomial::new("p".into(), uni_poly(supported, c.sel), None, None);
    let r = guard(|| SonicPC::commit(&ck, [&ok], None));
    ctx.check(matches!(r, Out::Ok(_)), sig(P, "sonic", "commit", "supported_degree_refused"), || format!("degree {supported} refused"))?;
    let big = LabeledPolynomial::new("p".into(), uni_poly(supported + 1, c.sel), None, None);
    let r = guard(|| SonicPC::commit(&ck, [&big], None));
    ctx.check(!matches!(r, Out::Ok(_)), sig(P, "sonic", "commit", "degree_above_supported_accepted"), || format!("degree {} accepted", supported + 1))?;
    let r = guard(|| SonicPC::trim(&pp, max + 1, hiding, bounds.as_deref()));
    ctx.check(!matches!(r, Out::Ok(_)), sig(P, "sonic", "trim", "supported_above_max_accepted"), || "trim(supported > max)".into())?;
    let r = guard(|| SonicPC::trim(&pp, supported, max + 2, bounds.as_deref()));
    ctx.check(!matches!(r, Out::Ok(_)), sig(P, "sonic", "trim", "hiding_above_max_accepted"), || "trim(hiding > max + 1)".into())?;
    let r = guard(|| SonicPC::trim(&pp, supported, hiding, Some(&[supported + 1 + (c.sel % 3) as usize])));
    ctx.check(!matches!(r, Out::Ok(_)), sig(P, "sonic", "trim", "bound_above_supported_accepted"), || "trim(bound > supported)".into())?;
    Ok(())
}

// ------------------------------------------------------------------------------------------------
// transparent keys: IPA, Hyrax
// ------------------------------------------------------------------------------------------------

fn derive_jubjub(name: &[u8], i: u64) -> JAff {
    let mut hash = Blake2s256::digest([name, &i.to_le_bytes()].concat().as_slice());
    let mut g = JAff::from_random_bytes(&hash);
    let mut j = 0u64;
    while g.is_none() {
        let mut bytes = name.to_vec();
        bytes.extend(i.to_le_bytes());
        bytes.extend(j.to_le_bytes());
        hash = Blake2s256::digest(bytes.as_slice());
        g = JAff::from_random_bytes(&hash);
        j += 1;
    }
    g.unwrap().mul_by_cofactor_to_group().into_affine()
}

fn derive_g1(name: &[u8], i: u64) -> G1A {
    let mut hash = Blake2s256::digest([name, &i.to_le_bytes()].concat().as_slice());
    let mut g = G1A::from_random_bytes(&hash);
    let mut j = 0u64;
    while g.is_none() {
        let mut bytes = name.to_vec();
        bytes.extend(i.to_le_bytes());
        bytes.extend(j.to_le_bytes());
        hash = Blake2s256::digest(bytes.as_slice());
        g = G1A::from_random_bytes(&hash);
        j += 1;
    }
    g.unwrap().mul_by_cofactor_to_group().into_affine()
}

fn generators_ok<A: AffineRepr>(all: &[A]) -> Result<(), String> {
    for (i, g) in all.iter().enumerate() {
        if g.is_zero() {
            return Err(format!("generator {i} is the identity"));
        }
        if ark_serialize::Valid::check(g).is_err() {
            return Err(format!("generator {i} is not a valid prime-order point"));
        }
    }
    let mut b: Vec<Vec<u8>> = all.iter().map(|g| ser(g)).collect();
    b.sort();
    let n = b.len();
    b.dedup();
    if b.len() != n {
        return Err("two generators coincide".into());
    }
    Ok(())
}

fn check_ipa(c: &Case, ctx: &mut CaseCtx) -> Result<(), Failure> {
    // one case in six asks for a key around and beyond 256 / 512 generators
    let max_req = if c.key.c % 6 == 5 {
        [255, 256, 300, 511, 520, 700][(c.key.c as usize / 6) % 6]
    } else {
        UNI_DEGS[pick(c.key.a, UNI_DEGS.len())]
    };
    ctx.label_if(max_req >= 255, "large_key");
    let sup_req = 1 + pick(c.key.b, max_req);
    let max = (max_req + 1).next_power_of_two() - 1;
    let sup = (sup_req + 1).next_power_of_two() - 1;
    ctx.nontrivial_if(sup < max);
    ctx.derived = Some(json!({"scheme":"ipa","max_requested":max_req,"supported_requested":sup_req}));
    let pp: ipa_pc::UniversalParams<JAff> = match guard(|| IpaPC::setup(max_req, None, &mut rng(c.sel))) {
        Out::Ok(p) => p,
        o => return ctx.fail(sig(P, "ipa", "setup", "refused"), o.describe_nodebug()),
    };
    let Out::Ok(pp2) = guard(|| IpaPC::setup(max_req, None, &mut rng(c.sel ^ 0xdead))) else { return Ok(()) };
    ctx.check(ser(&pp) == ser(&pp2), sig(P, "ipa", "setup", "depends_on_rng"), || "two setups with different RNGs differ".into())?;
    ctx.check(pp.comm_key.len() == max + 1 && pp.max_degree() == max, sig(P, "ipa", "setup", "key_length"), || format!("{} generators for max degree {max}", pp.comm_key.len()))?;
    // own derivation from the protocol name
    let name = b"PC-DL-2020";
    let all: Vec<JAff> = (0..(max + 3) as u64).map(|i| derive_jubjub(name, i)).collect();
    ctx.check(pp.comm_key[..] == all[..max + 1] && pp.s == all[max + 1] && pp.h == all[max + 2], sig(P, "ipa", "setup", "generators_not_derived_from_seed"), || {
        "published generators differ from the hash-to-curve derivation from the protocol name".into()
    })?;
    let mut every = pp.comm_key.clone();
    every.push(pp.s);
    every.push(pp.h);
    if let Err(e) = generators_ok(&every) {
        return ctx.fail(sig(P, "ipa", "setup", "bad_generators"), e);
    }
    ctx.asserts += 1;
    // the enforced-bound list is documented as ignored by this scheme: None, empty or a generated list
    let blist: Option<Vec<usize>> = match c.key.c % 3 {
        0 => None,
        1 => Some(vec![]),
        _ => Some(vec![1 + pick(c.key.a, sup_req), 1 + pick(c.key.b ^ 0x5a5a, sup_req)]),
    };
    ctx.label_if(blist.as_ref().map(|b| !b.is_empty()).unwrap_or(false), "trim_with_a_bound_list");
    let (ck, vk) = match guard(|| IpaPC::trim(&pp, sup_req, 0, blist.as_deref())) {
        Out::Ok(k) => k,
        o => return ctx.fail(sig(P, "ipa", "trim", "in_range_refused"), o.describe_nodebug()),
    };
    ctx.check(ck.comm_key[..] == pp.comm_key[..sup + 1] && ck.h == pp.h && ck.s == pp.s && PCCommitterKey::supported_degree(&ck) == sup && PCCommitterKey::max_degree(&ck) == max, sig(P, "ipa", "trim", "not_a_prefix"), || {
        format!("committer key is not the prefix of length {} of the parameters", sup + 1)
    })?;
    ctx.check(ser(&ck) == ser(&vk), sig(P, "ipa", "trim", "ck_vk_differ"), || "committer and verifier key differ".into())?;
    let ok = LabeledPolynomial::new("p".into(), JUniPoly::from_coefficients_vec((0..=sup).map(|i| JFr::from(i as u64 + 1)).collect()), None, None);
    let r = guard(|| IpaPC::commit(&ck, [&ok], None));
    ctx.check(matches!(r, Out::Ok(_)), sig(P, "ipa", "commit", "supported_degree_refused"), || format!("degree {sup} refused"))?;
    let big = LabeledPolynomial::new("p".into(), JUniPoly::from_coefficients_vec((0..=sup + 1).map(|i| JFr::from(i as u64 + 1)).collect()), None, None);
    let r = guard(|| IpaPC::commit(&ck, [&big], None));
    ctx.check(!matches!(r, Out::Ok(_)), sig(P, "ipa", "commit", "degree_above_supported_accepted"), || format!("degree {} accepted", sup + 1))?;
    let r = guard(|| IpaPC::trim(&pp, max + 1, 0, None));
    ctx.check(!matches!(r, Out::Ok(_)), sig(P, "ipa", "trim", "supported_above_max_accepted"), || "trim(supported > max)".into())?;
    Ok(())
}

fn check_hyrax(c: &Case, ctx: &mut CaseCtx) -> Result<(), Failure> {
    let nv = 2 * pick(c.key.a, if current_tier().is_quick() { 5 } else { 7 });
    ctx.nontrivial_if(nv >= 2);
    ctx.derived = Some(json!({"scheme":"hyrax","num_vars":nv}));
    let pp = match guard(|| HyraxPCT::setup(1, Some(nv), &mut rng(c.sel))) {
        Out::Ok(p) => p,
        o => return ctx.fail(sig(P, "hyrax", "setup", "refused"), o.describe_nodebug()),
    };
    let Out::Ok(pp2) = guard(|| HyraxPCT::setup(7, Some(nv), &mut rng(c.sel ^ 0xbeef))) else { return Ok(()) };
    ctx.check(ser(&pp) == ser(&pp2), sig(P, "hyrax", "setup", "depends_on_rng"), || "two setups differ".into())?;
    let dim = 1usize << (nv / 2);
    ctx.check(pp.com_key.len() == dim, sig(P, "hyrax", "setup", "key_length"), || format!("{} generators for {nv} variables", pp.com_key.len()))?;
    let all: Vec<G1A> = (0..(dim + 1) as u64).map(|i| derive_g1(b"Hyrax protocol", i)).collect();
    ctx.check(pp.com_key[..] == all[..dim] && pp.h == all[dim], sig(P, "hyrax", "setup", "generators_not_derived_from_seed"), || "generators differ from the derivation from the protocol name".into())?;
    let mut every = pp.com_key.clone();
    every.push(pp.h);
    if let Err(e) = generators_ok(&every) {
        return ctx.fail(sig(P, "hyrax", "setup", "bad_generators"), e);
    }
    ctx.asserts += 1;
    if let Out::Ok((ck, vk)) = guard(|| HyraxPCT::trim(&pp, 1, 1, None)) {
        ctx.check(ser(&ck) == ser(&pp) && ser(&vk) == ser(&pp), sig(P, "hyrax", "trim", "changes_parameters"), || "trim changed the parameters".into())?;
    }
    // odd / missing variable counts are refused
    let r = guard(|| HyraxPCT::setup(1, Some(nv + 1), &mut rng(1)));
    ctx.check(!matches!(r, Out::Ok(_)), sig(P, "hyrax", "setup", "odd_variables_accepted"), || "odd number of variables accepted".into())?;
    let r = guard(|| HyraxPCT::setup(1, None, &mut rng(1)));
    ctx.check(!matches!(r, Out::Ok(_)), sig(P, "hyrax", "setup", "missing_variables_accepted"), || "None variables accepted".into())?;
    Ok(())
}

// ------------------------------------------------------------------------------------------------
// code-based parameters
// ------------------------------------------------------------------------------------------------

fn sprs_ok(m: &MSprs, dims: (usize, usize, usize)) -> Result<(), String> {
    if (m.n, m.m, m.d) != dims {
        return Err(format!("matrix is {}x{} with {} per row, declared {:?}", m.n, m.m, m.d, dims));
    }
    if m.ind_ptr.len() != m.m + 1 || m.col_ind.len() != m.val.len() || *m.ind_ptr.last().unwrap() != m.col_ind.len() {
        return Err("inconsistent CSC arrays".into());
    }
    let mut per_row = vec![0usize; m.n];
    for j in 0..m.m {
        let mut seen = std::collections::BTreeSet::new();
        for k in m.ind_ptr[j]..m.ind_ptr[j + 1] {
            let r = m.col_ind[k];
            if r >= m.n {
                return Err("row index out of range".into());
            }
            if !seen.insert(r) {
                return Err("duplicate entry in a column".into());
            }
            if m.val[k].is_zero() {
                return Err("stored zero entry".into());
            }
            per_row[r] += 1;
        }
    }
    if let Some(r) = per_row.iter().position(|c| *c != m.d) {
        return Err(format!("row {r} has {} non-zero entries, declared {}", per_row[r], m.d));
    }
    Ok(())
}

fn check_lincodes(c: &Case, ctx: &mut CaseCtx) -> Result<(), Failure> {
    let tier = current_tier();
    // Ligero parameters are a deterministic function of their inputs
    let (dflt, sec, rho, wf) = ligero_choice(c.key.c);
    let p1: LigeroParams = if dflt { guard(|| MLigeroPC::setup(1, Some(4), &mut rng(1))).ok().unwrap_or_else(|| LigeroParams::new(128, 2, true, (), (), ())) } else { LigeroParams::new(sec, rho, wf, (), (), ()) };
    let p2: LigeroParams = if dflt { guard(|| MLigeroPC::setup(1, Some(4), &mut rng(2))).ok().unwrap_or_else(|| LigeroParams::new(128, 2, true, (), (), ())) } else { LigeroParams::new(sec, rho, wf, (), (), ()) };
    ctx.check(ser(&p1) == ser(&p2), sig(P, "ligero", "setup", "depends_on_rng"), || "Ligero parameters depend on the RNG".into())?;
    if let Out::Ok((ck, vk)) = guard(|| MLigeroPC::trim(&p1, 0, 0, None)) {
        ctx.check(ser(&ck) == ser(&p1) && ser(&vk) == ser(&p1), sig(P, "ligero", "trim", "changes_parameters"), || "trim changed the parameters".into())?;
    }
    // Brakedown
    let nv = 1 + pick(c.key.a, if tier.is_quick() { 10 } else { 12 });
    let seed = c.key.seed as u64;
    let Ok(pp): Result<std::sync::Arc<BrakedownParams>, String> = memo(format!("brakedown:{}:{}:{}", nv, true, seed), || guard(|| BrakedownPC::setup(1, Some(nv), &mut rng(0xbd + seed))).need("setup")) else {
        return ctx.fail(sig(P, "brakedown", "setup", "refused"), "setup failed".to_string());
    };
    ctx.nontrivial_if(nv >= 6);
    let m: MBrakedown = match MBrakedown::deserialize_compressed(&ser(&*pp)[..]) {
        Ok(m) => m,
        Err(e) => return ctx.fail(sig(P, "brakedown", "params", "mirror"), format!("{e:?}")),
    };
    ctx.derived = Some(json!({"scheme":"brakedown","num_vars":nv,"n":m.n,"m":m.m,"m_ext":m.m_ext,"levels":m.a_dims.len()}));
    ctx.check(m.n * m.m >= 1 << nv, sig(P, "brakedown", "params", "matrix_too_small"), || format!("{}x{} matrix for 2^{nv} evaluations", m.n, m.m))?;
    ctx.check(m.a_mats.len() == m.a_dims.len() && m.b_mats.len() == m.b_dims.len() && m.a_dims.len() == m.b_dims.len(), sig(P, "brakedown", "params", "matrix_count"), || "matrix list lengths".into())?;
    for (i, a) in m.a_mats.iter().enumerate() {
        if let Err(e) = sprs_ok(a, m.a_dims[i]) {
            return ctx.fail(sig(P, "brakedown", "params", "a_matrix_shape"), format!("A[{i}]: {e}"));
        }
    }
    for (i, b) in m.b_mats.iter().enumerate() {
        if let Err(e) = sprs_ok(b, m.b_dims[i]) {
            return ctx.fail(sig(P, "brakedown", "params", "b_matrix_shape"), format!("B[{i}]: {e}"));
        }
    }
    ctx.asserts += 2;
    let msg: Vec<Fr> = (0..m.m).map(|i| Fr::from(i as u64 + 1)).collect();
    match lincode::encode::<Brakedown>(&pp, &msg) {
        Out::Ok(w) => ctx.check(w.len() == m.m_ext, sig(P, "brakedown", "encode", "length"), || format!("codeword length {} vs m_ext {}", w.len(), m.m_ext))?,
        o => return ctx.fail(sig(P, "brakedown", "encode", "refused"), o.describe_nodebug()),
    }
    if let Out::Ok((ck, vk)) = guard(|| BrakedownPC::trim(&pp, 0, 0, None)) {
        ctx.check(ser(&ck) == ser(&*pp) && ser(&vk) == ser(&*pp), sig(P, "brakedown", "trim", "changes_parameters"), || "trim changed the parameters".into())?;
    }
    Ok(())
}

// ------------------------------------------------------------------------------------------------
// multilinear PST, streaming KZG
// ------------------------------------------------------------------------------------------------

fn check_ml(c: &Case, ctx: &mut CaseCtx) -> Result<(), Failure> {
    let Ok((pp, ck, vk, nv_max, nv)) = ml_keys(c.key.a, c.key.b, c.key.seed % 3) else {
        return ctx.fail(sig(P, "mlpst", "setup", "refused"), "setup/trim failed".to_string());
    };
    ctx.nontrivial_if(nv < nv_max);
    ctx.derived = Some(json!({"scheme":"mlpst","nv_max":nv_max,"nv":nv}));
    ctx.check(pp.powers_of_g.len() == nv_max && pp.powers_of_h.len() == nv_max && pp.g_mask.len() == nv_max && pp.num_vars == nv_max, sig(P, "mlpst", "setup", "table_count"), || "table counts".into())?;
    for k in 0..nv_max {
        let (tg, th) = (&pp.powers_of_g[k], &pp.powers_of_h[k]);
        let vars = nv_max - k;
        ctx.check(tg.len() == 1 << vars && th.len() == 1 << vars, sig(P, "mlpst", "setup", "table_size"), || format!("level {k} table size"))?;
        // the eq table sums to one
        let sg: G1 = tg.iter().fold(G1::zero(), |a, b| a + b);
        let sh: G2 = th.iter().fold(G2::zero(), |a, b| a + b);
        ctx.check(sg.into_affine() == pp.g && sh.into_affine() == pp.h, sig(P, "mlpst", "setup", "table_does_not_sum_to_generator"), || format!("level {k}: sum over the hypercube is not the generator"))?;
        // G1 and G2 tables carry the same scalars: e(sum r_x Tg[x], h) == e(g, sum r_x Th[x])
        let lhs = E::pairing(rlc(tg, c.sel ^ k as u64), pp.h);
        let rhs = E::pairing(pp.g, rlc(th, c.sel ^ k as u64));
        ctx.check(lhs == rhs, sig(P, "mlpst", "setup", "g1_g2_tables_differ"), || format!("level {k}: G1 and G2 tables are not the same evaluations"))?;
        // per variable: Tg[x | bit i] == t_{k+i} * (Tg[x] + Tg[x | bit i]) checked against g_mask through G2
        for i in 0..vars {
            let mut a = Vec::new();
            let mut bsum = Vec::new();
            for x in 0..(1usize << vars) {
                if x >> i & 1 == 0 {
                    a.push(tg[x | (1 << i)]);
                    bsum.push((th[x].into_group() + th[x | (1 << i)]).into_affine());
                }
            }
            let lhs = E::pairing(rlc(&a, c.sel ^ 77), pp.h);
            let rhs = E::pairing(pp.g_mask[k + i], rlc(&bsum, c.sel ^ 77));
            ctx.check(lhs == rhs, sig(P, "mlpst", "setup", "table_not_eq_of_one_trapdoor"), || format!("level {k}, variable {i}: table entries are not eq(t, x) for the published g_mask"))?;
        }
    }
    let red = nv_max - nv;
    ctx.check(ck.nv == nv && vk.nv == nv && ck.powers_of_g[..] == pp.powers_of_g[red..] && ck.powers_of_h[..] == pp.powers_of_h[red..] && vk.g_mask_random[..] == pp.g_mask[red..] && ck.g == pp.g && ck.h == pp.h && vk.g == pp.g && vk.h == pp.h,
        sig(P, "mlpst", "trim", "not_a_subkey"), || "trimmed keys are not the last tables / masks of the parameters".into())?;
    let r = guard_plain(|| MlPst::trim(&pp, nv_max + 1));
    ctx.check(!matches!(r, Out::Ok(_)), sig(P, "mlpst", "trim", "too_many_variables_accepted"), || "trim beyond the parameters".into())?;
    Ok(())
}

fn check_sk(c: &Case, ctx: &mut CaseCtx) -> Result<(), Failure> {
    let deg = 1 + pick(c.key.a, 96);
    let pts = 1 + pick(c.key.b, 8.min(deg));
    ctx.nontrivial_if(deg >= 8);
    let ck = sk_keys(deg, pts, c.key.seed % 3);
    let sck = CommitterKeyStream::from(&*ck);
    let g: Vec<G1A> = sck.powers_of_g.0.to_vec();
    let h = &sck.powers_of_g2;
    ctx.derived = Some(json!({"scheme":"skzg","max_degree":deg,"max_eval_points":pts}));
    ctx.check(g.len() == deg + 1 && h.len() == pts + 1 && ck.max_eval_points() == pts, sig(P, "skzg", "setup", "power_count"), || format!("{} G1 / {} G2 powers", g.len(), h.len()))?;
    if let Some(i) = ratio_g1(&g[1..], &g[..deg], h[0], h[1], c.sel) {
        return ctx.fail(sig(P, "skzg", "setup", "g1_power_chain"), format!("G1 power {} is not tau * power {}", i.wrapping_add(1), i));
    }
    for j in 1..h.len() {
        ctx.check(E::pairing(g[0], h[j]) == E::pairing(g[j], h[0]), sig(P, "skzg", "setup", "g2_power_chain"), || format!("G2 power {j} is not tau^{j} H"))?;
    }
    Ok(())
}

// ------------------------------------------------------------------------------------------------
// PST13: the parameter/trim oracle of C15 on generated (num_vars, max_degree, seed), plus key interop
// ------------------------------------------------------------------------------------------------

fn pst_case() -> impl Strategy<Value = super::c15::GridCase> {
    (1usize..=5, 1usize..=5, 0u64..1000).prop_map(|(nv, d, seed)| super::c15::GridCase { nv, d, seed })
}

fn check_pst(c: &super::c15::GridCase, ctx: &mut CaseCtx) -> Result<(), Failure> {
    use ark_poly::{multivariate::Term, DenseMVPolynomial, Polynomial};
    let mut inner = CaseCtx::new_like(ctx);
    let r = super::c15::check_grid(c, &mut inner);
    ctx.absorb(inner);
    if let Err(f) = r {
        return ctx.fail(f.sig.replace("C15:", "C09:"), f.msg);
    }
    let (nv, d) = (c.nv, c.d);
    let Out::Ok(pp) = guard(|| Pst13PC::setup(d, Some(nv), &mut rng(0xb0b + c.seed))) else { return Ok(()) };
    let mut g = rng(c.seed ^ 0x9e37);
    let (s1, s2) = (1 + (g.next_u64() as usize) % d, 1 + (g.next_u64() as usize) % d);
    ctx.label_if(s1 != s2, "interop_between_different_supported_degrees");
    let (Out::Ok((ck1, vk1)), Out::Ok((_ck2, vk2))) = (guard(|| Pst13PC::trim(&pp, s1, 0, None)), guard(|| Pst13PC::trim(&pp, s2, 0, None))) else {
        return ctx.fail(sig(P, "pst13", "trim", "in_range_refused"), format!("trim(supported {s1} / {s2}) refused under max degree {d}"));
    };
    // truthful degree reports
    ctx.check(
        ck1.supported_degree() == s1 && ck1.max_degree() == d && vk1.supported_degree() == s1 && vk1.max_degree() == d && pp.max_degree() == d,
        sig(P, "pst13", "trim", "degree_report"),
        || format!("reports: ck ({}, {}), vk ({}, {}), requested ({s1}, {d})", ck1.supported_degree(), ck1.max_degree(), vk1.supported_degree(), vk1.max_degree()),
    )?;
    // a polynomial of total degree exactly s1 (all monomials of degree <= s1 with random coefficients)
    let terms: Vec<(Fr, _)> = all_exponents(nv, s1).iter().map(|e| (Fr::rand(&mut g) + Fr::from(1u64), term_of(e))).collect();
    let top = terms.iter().map(|(_, t)| t.degree()).max().unwrap_or(0);
    let poly = MVPoly::from_coefficients_vec(nv, terms);
    let hiding = if c.seed % 2 == 0 { Some(1 + (c.seed as usize / 2) % s1) } else { None };
    ctx.label_if(hiding.is_some(), "has_hiding");
    let lp = LabeledPolynomial::new("p".into(), poly.clone(), None, hiding);
    let Out::Ok((cm, st)) = guard(|| Pst13PC::commit(&ck1, [&lp], Some(&mut rng(c.seed ^ 3)))) else {
        return ctx.fail(sig(P, "pst13", "commit", "supported_degree_refused"), format!("commit of a polynomial of total degree {top} refused under supported degree {s1}"));
    };
    // one degree more is refused
    if s1 < d {
        let mut e = vec![0usize; nv];
        e[(c.seed as usize) % nv] = s1 + 1;
        let big = MVPoly::from_coefficients_vec(nv, vec![(Fr::from(3u64), term_of(&e))]);
        let lb = LabeledPolynomial::new("b".into(), big, None, None);
        let r = guard(|| Pst13PC::commit(&ck1, [&lb], None));
        ctx.check(!matches!(r, Out::Ok(_)), sig(P, "pst13", "commit", "above_supported_accepted"), || format!("commit accepted total degree {} under supported degree {s1}", s1 + 1))?;
    }
    let z: Vec<Fr> = (0..nv).map(|_| Fr::rand(&mut g)).collect();
    let v = poly.evaluate(&z);
    let mut sp = sponge::<Fr>(0);
    let Out::Ok(pf) = guard(|| Pst13PC::open(&ck1, [&lp], &cm, &z, &mut sp, &st, Some(&mut rng(c.seed ^ 5)))) else {
        return ctx.fail(sig(P, "pst13", "open", "refused"), "open refused");
    };
    // the verifier key of another trim of the same parameters accepts (verifier keys do not depend on the supported degree)
    let ok = guard(|| Pst13PC::check(&vk2, &cm, &z, [v], &pf, &mut sponge::<Fr>(0), None));
    ctx.check(matches!(ok, Out::Ok(true)), sig(P, "pst13", "interop", "rejected"), || format!("proof under ck(supported {s1}) against vk(supported {s2}) -> {}", ok.describe()))?;
    let bad = guard(|| Pst13PC::check(&vk2, &cm, &z, [v + Fr::from(1u64)], &pf, &mut sponge::<Fr>(0), None));
    ctx.check(!matches!(bad, Out::Ok(true)), sig(P, "pst13", "interop", "false_value_accepted"), || "false value accepted across keys".into())?;
    ctx.nontrivial = nv >= 2 && d >= 2;
    Ok(())
}

pub fn spec() -> PropertySpec {
    let mut units: Vec<Box<dyn Unit>> = Vec::new();
    units.push(PropUnit::new("C09:pst13:srs+trim", 60, 400, 4, |_| pst_case().boxed(), check_pst));
    units.push(PropUnit::new("C09:marlin:srs+trim", 240, 1200, 4, |_| case().boxed(), check_marlin));
    units.push(PropUnit::new("C09:sonic:srs+trim", 240, 1200, 4, |_| case().boxed(), check_sonic));
    units.push(PropUnit::new("C09:ipa:generators+trim", 120, 600, 2, |_| case().boxed(), check_ipa));
    units.push(PropUnit::new("C09:hyrax:generators", 100, 400, 2, |_| case().boxed(), check_hyrax));
    units.push(PropUnit::new("C09:lincodes:params", 200, 1000, 2, |_| case().boxed(), check_lincodes));
    units.push(PropUnit::new("C09:mlpst:tables+trim", 60, 300, 4, |_| case().boxed(), check_ml));
    units.push(PropUnit::new("C09:skzg:srs", 120, 600, 2, |_| case().boxed(), check_sk));
    PropertySpec {
        id: "C09",
        rule: "Generated key requests (max degree from {1..64}, supported <= max, enforced bound lists unsorted/duplicated/empty/None, hiding bounds, 1-10 variables, setup seeds). KZG SRS (Marlin, Sonic, streaming): every G1 power and gamma power is beta times its predecessor and every negative G2 power satisfies e(G_i, beta^-i H) = e(G_0, H) (random-combination pairing checks with per-index localisation), counts are max+1 / max+2, generators are not the identity, prepared elements pair like the plain ones. trim: committer/verifier key elements are exactly the SRS prefix ..=supported, gamma prefix ..=hiding+1, shifted window from max - max(B), one shift element per sorted de-duplicated bound (G_{max-b} for Marlin, beta^-(max-b) H for Sonic, shifted gamma windows for Sonic); degree reports are truthful (degree = supported commits, supported+1 is refused); Marlin's prepared verifier key and KZG10's prepared commitment are the doubling chains (one element per scalar bit) of the plain elements, bound by bound, and the prepared G2 elements pair like h and beta_h; two keys trimmed from one SRS interoperate; supported > max, hiding > max+1 and bounds beyond max/supported are refused. IPA / Hyrax: published generators equal the harness's own hash-to-curve derivation from the protocol name, are valid, non-identity, pairwise distinct, independent of the setup RNG; trim returns a prefix; odd/None variable counts refused. Code-based: Ligero parameters are a deterministic function of their inputs, Brakedown matrices have the declared shapes and exactly d non-zero entries per row, encode returns a word of the declared length, trim returns the parameters unchanged. Multilinear PST: every hypercube table sums to the generator, G1 and G2 tables carry the same scalars, and each variable's slice ratio matches the published g_mask (so every entry is eq(t,x) for one trapdoor); trimmed keys are the trailing tables. PST13: C15's parameter oracle (one element per monomial of total degree <= D, monomial and gamma chains through pairings, trim keeps exactly the monomials up to the supported degree with truthful key fields, trim beyond max refused) on generated (num_vars, max_degree, setup seed), truthful degree reports, a polynomial with every monomial of total degree <= supported commits and one degree more is refused, and a proof made under the committer key of one trim verifies under the verifier key of another trim of the same parameters (and not for a false value). Non-trivial: supported < max with >= 2 distinct bounds, or an unsorted/duplicated bound list (other schemes: a key larger than the smallest).",
        assumptions: vec![
            "pairing identities show every power belongs to one trapdoor, not that the trapdoor is random or discarded",
            "batched pairing checks use 128-bit random coefficients derived from the case seed",
        ],
        units,
        watchdog_s: (1500, 7200),
    }
}

#[allow(dead_code)]
fn _z<U: PCUniversalParams, V: PCVerifierKey>(_: U, _: V) {}
