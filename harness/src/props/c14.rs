//! C14 — streaming KZG: space- and time-efficient provers are interchangeable.

use super::c01::{distinct_points, sk_poly, SK_BUFS};
use super::c02::delta;
use super::common::*;
use crate::engine::{CaseCtx, Failure, PropUnit, PropertySpec, Unit};
use crate::model::{fraw, fraw_point};
use crate::schemes::*;
use crate::types::*;
use crate::util::{accepted, guard, guard_plain, pick, rng, FRaw, Out};
use ark_ec::{AffineRepr, CurveGroup};
use ark_ff::{Field, One, PrimeField, UniformRand, Zero};
use ark_poly_commit::streaming_kzg::{
    CommitterKey, CommitterKeyStream, FoldedPolynomialStream, FoldedPolynomialTree, VerifierKey,
};
use ark_std::iterable::{Iterable, Reverse};
use proptest::prelude::*;
use serde::{Deserialize, Serialize};
use serde_json::json;

const P: &str = "C14";

#[derive(Clone, Debug, Serialize, Deserialize)]
pub struct Case {
    pub polys: Vec<(u16, u64, u8)>,
    pub extra_key: u8,
    pub points: Vec<FRaw>,
    pub eta: u64,
    pub buf: u8,
    pub key_seed: u64,
}

fn case() -> impl Strategy<Value = Case> {
    (
        proptest::collection::vec((prop_oneof![1 => 0u16..2000, 2 => any::<u16>()], any::<u64>(), 0u8..4), 1..=8),
        0u8..6,
        proptest::collection::vec(fraw_point(), 1..=8),
        any::<u64>(),
        0u8..7,
        0u64..6,
    )
        .prop_map(|(polys, extra_key, points, eta, buf, key_seed)| Case { polys, extra_key, points, eta, buf, key_seed })
}

/// key with a known trapdoor: `CommitterKey::new` draws tau first, then the generator
fn key_with_trapdoor(max_degree: usize, max_points: usize, seed: u64) -> (std::sync::Arc<(CommitterKey<E>, Fr)>, G1A) {
    let k = memo(format!("skzg14:{}:{}:{}", max_degree, max_points, seed), || {
        let ck = CommitterKey::<E>::new(max_degree, max_points, &mut rng(0x14_000 + seed));
        let tau = Fr::rand(&mut rng(0x14_000 + seed));
        Ok((ck, tau))
    })
    .unwrap();
    let g = CommitterKeyStream::from(&k.0).powers_of_g.0[0];
    (k, g)
}

fn dbg_commit(g: G1A) -> String {
    format!("Commitment({:?})", g)
}

/// remainder of f (little-endian) modulo prod (X - z_i), little-endian, padded to #points entries; and the quotient
fn divide(f: &[Fr], points: &[Fr]) -> (Vec<Fr>, Vec<Fr>) {
    // vanishing polynomial, little-endian, monic
    let mut z = vec![Fr::one()];
    for p in points {
        let mut n = vec![Fr::zero(); z.len() + 1];
        for (i, c) in z.iter().enumerate() {
            n[i + 1] += *c;
            n[i] -= *c * p;
        }
        z = n;
    }
    let d = points.len();
    let mut r = f.to_vec();
    let mut q = vec![Fr::zero(); f.len().saturating_sub(d)];
    for i in (d..r.len()).rev() {
        let c = r[i];
        q[i - d] = c;
        for j in 0..=d {
            let t = c * z[j];
            r[i - d + j] -= t;
        }
    }
    r.resize(d, Fr::zero());
    r.truncate(d);
    (r, q)
}

fn check_basic(c: &Case, ctx: &mut CaseCtx) -> Result<(), Failure> {
    let polys: Vec<Vec<Fr>> = c.polys.iter().map(|(l, s, k)| sk_poly(*l, *s, *k)).collect();
    let points = distinct_points(&c.points);
    let maxlen = polys.iter().map(|p| p.len()).max().unwrap();
    let key_deg = ([0usize, 1, 2, 5, 17, 64][c.extra_key as usize] + (maxlen - 1).max(points.len()) + 15) / 16 * 16;
    let (k, g) = key_with_trapdoor(key_deg, 8, c.key_seed);
    let (ck, tau) = (&k.0, k.1);
    let vk = VerifierKey::from(ck);
    let sck = CommitterKeyStream::from(ck);
    let buf = SK_BUFS[c.buf as usize];
    let eta = Fr::rand(&mut rng(c.eta));
    ctx.label_if(polys.iter().any(|p| !p.len().is_power_of_two()), "non_power_of_two_length");
    ctx.label_if(buf < maxlen, "buffer_smaller_than_poly");
    ctx.label_if(points.len() >= 2, "multi_point");
    ctx.label_if(polys[0].len() < points.len(), "fewer_coefficients_than_points");
    ctx.nontrivial_if(polys.iter().any(|p| !p.len().is_power_of_two()) || buf < maxlen || points.len() >= 2);
    ctx.derived = Some(json!({"lens": polys.iter().map(|p| p.len()).collect::<Vec<_>>(), "points": points.len(), "key_degree": key_deg, "buffer": buf}));

    let p0 = &polys[0];
    let be: Vec<Fr> = p0.iter().rev().cloned().collect();
    let be_stream = &be[..];
    // commitments
    let (tc, sc) = match (guard_plain(|| ck.commit(p0)), guard_plain(|| sck.commit(&Reverse(&p0[..])))) {
        (Out::Ok(a), Out::Ok(b)) => (a, b),
        (a, b) => return ctx.fail(sig(P, "skzg", "commit", "abort"), format!("time: {}, space: {}", a.describe_nodebug(), b.describe_nodebug())),
    };
    ctx.check(tc == sc, sig(P, "skzg", "commit", "time_space_differ"), || "time and space commitments differ".into())?;
    let closed = g.mul_bigint(horner(p0, tau).into_bigint()).into_affine();
    ctx.check(format!("{:?}", tc) == dbg_commit(closed), sig(P, "skzg", "commit", "not_p_of_tau"), || "commitment != p(tau) G".into())?;
    // single-point openings
    for (zi, alpha) in points.iter().enumerate().take(2) {
        let truth = horner(p0, *alpha);
        let (te, tp) = match guard_plain(|| ck.open(p0, alpha)) {
            Out::Ok(x) => x,
            o => return ctx.fail(sig(P, "skzg", "time.open", "abort"), o.describe_nodebug()),
        };
        let (se, spf) = match guard_plain(|| sck.open(&be_stream, alpha, buf)) {
            Out::Ok(x) => x,
            o => return ctx.fail(sig(P, "skzg", "space.open", "abort"), format!("buffer {buf}, length {}: {}", p0.len(), o.describe_nodebug())),
        };
        ctx.check(te == truth && se == truth, sig(P, "skzg", "open", "wrong_evaluation"), || format!("point {zi}: time {} / space {} evaluation wrong", te == truth, se == truth))?;
        ctx.check(tp == spf, sig(P, "skzg", "open", "time_space_proofs_differ"), || format!("point {zi}, buffer {buf}, length {}: proofs differ", p0.len()))?;
        // closed form ((p(tau) - p(alpha)) / (tau - alpha)) G
        if tau != *alpha {
            let w = (horner(p0, tau) - truth) / (tau - alpha);
            ctx.check(tp.0 == g.mul_bigint(w.into_bigint()).into_affine(), sig(P, "skzg", "open", "not_the_quotient_commitment"), || "proof != ((p(tau)-p(alpha))/(tau-alpha)) G".into())?;
        }
        let r = guard(|| vk.verify(&tc, alpha, &truth, &spf).map(|_| true));
        ctx.check(accepted(&r), sig(P, "skzg", "verify", "truth_rejected"), || r.describe())?;
        let r = guard(|| vk.verify(&tc, alpha, &(truth + delta::<Fr>(c.eta)), &spf).map(|_| true));
        ctx.check(!accepted(&r), sig(P, "skzg", "verify", "false_value_accepted"), || r.describe())?;
    }
    // multi-point opening of one polynomial
    let (rem_ref, quo) = divide(p0, &points);
    let tmp = match guard_plain(|| ck.open_multi_points(p0, &points)) {
        Out::Ok(x) => x,
        o => return ctx.fail(sig(P, "skzg", "time.open_multi_points", "abort"), o.describe_nodebug()),
    };
    let (rem, smp) = match guard_plain(|| sck.open_multi_points(&be_stream, &points, buf)) {
        Out::Ok(x) => x,
        o => return ctx.fail(sig(P, "skzg", "space.open_multi_points", "abort"), format!("{} coefficients, {} points: {}", p0.len(), points.len(), o.describe_nodebug())),
    };
    ctx.check(tmp == smp, sig(P, "skzg", "open_multi_points", "time_space_proofs_differ"), || format!("{} coefficients, {} points, buffer {buf}", p0.len(), points.len()))?;
    let rem_le: Vec<Fr> = rem.iter().rev().cloned().collect();
    ctx.check(rem_le == rem_ref, sig(P, "skzg", "space.open_multi_points", "wrong_remainder"), || "remainder (big-endian) is not f mod Z".into())?;
    ctx.check(points.iter().all(|z| horner(&rem_le, *z) == horner(p0, *z)), sig(P, "skzg", "space.open_multi_points", "remainder_does_not_interpolate"), || "remainder does not interpolate the evaluations".into())?;
    let closed_q = g.mul_bigint(horner(&quo, tau).into_bigint()).into_affine();
    ctx.check(tmp.0 == closed_q, sig(P, "skzg", "open_multi_points", "not_the_quotient_commitment"), || "proof != q(tau) G with q = f div Z".into())?;
    let ev0 = vec![points.iter().map(|z| horner(p0, *z)).collect::<Vec<_>>()];
    let r = guard(|| vk.verify_multi_points(&[tc], &points, &ev0, &smp, &Fr::one()).map(|_| true));
    ctx.check(accepted(&r), sig(P, "skzg", "verify_multi_points", "truth_rejected"), || r.describe())?;
    // batched over polynomials
    let refs: Vec<&Vec<Fr>> = polys.iter().collect();
    if let (Out::Ok(comms), Out::Ok(bp)) = (guard_plain(|| ck.batch_commit(&polys)), guard_plain(|| ck.batch_open_multi_points(&refs, &points, &eta))) {
        let evals: Vec<Vec<Fr>> = polys.iter().map(|p| points.iter().map(|z| horner(p, *z)).collect()).collect();
        let r = guard(|| vk.verify_multi_points(&comms, &points, &evals, &bp, &eta).map(|_| true));
        ctx.check(accepted(&r), sig(P, "skzg", "verify_multi_points", "truth_rejected"), || r.describe())?;
        // closed form: sum eta^i q_i(tau) G
        let mut acc = Fr::zero();
        let mut w = Fr::one();
        for p in &polys {
            acc += w * horner(&divide(p, &points).1, tau);
            w *= eta;
        }
        ctx.check(bp.0 == g.mul_bigint(acc.into_bigint()).into_affine(), sig(P, "skzg", "batch_open_multi_points", "not_the_combined_quotient"), || "batched proof != sum eta^i q_i(tau) G".into())?;
        let mut e2 = evals.clone();
        let pi = (c.eta as usize) % polys.len();
        let zi = (c.eta as usize >> 8) % points.len();
        e2[pi][zi] += delta::<Fr>(c.eta >> 16);
        let r = guard(|| vk.verify_multi_points(&comms, &points, &e2, &bp, &eta).map(|_| true));
        ctx.check(!accepted(&r), sig(P, "skzg", "verify_multi_points", "false_value_accepted"), || r.describe())?;
    }
    Ok(())
}

// ------------------------------------------------------------------------------------------------
// folding
// ------------------------------------------------------------------------------------------------

#[derive(Clone, Debug, Serialize, Deserialize)]
pub struct FoldCase {
    pub len: u8,
    pub seed: u64,
    pub kind: u8,
    pub challenges: Vec<FRaw>,
    pub points: Vec<FRaw>,
    pub buf: u8,
    pub key_seed: u64,
}

fn fold_case() -> impl Strategy<Value = FoldCase> {
    (
        1u8..=130,
        any::<u64>(),
        0u8..4,
        proptest::collection::vec(fraw(), 0..=7),
        proptest::collection::vec(fraw_point(), 1..=4),
        0u8..7,
        0u64..4,
    )
        .prop_map(|(len, seed, kind, challenges, points, buf, key_seed)| FoldCase { len, seed, kind, challenges, points, buf, key_seed })
}

/// fold_i of the input padded with high-order zeros to a multiple of 2^depth (little-endian), i = 1..=depth
pub fn naive_folds(f: &[Fr], ch: &[Fr]) -> Vec<Vec<Fr>> {
    let depth = ch.len();
    let chunk = 1usize << depth;
    let mut cur = f.to_vec();
    cur.resize((f.len() + chunk - 1) / chunk * chunk, Fr::zero());
    let mut out = Vec::new();
    for c in ch {
        let next: Vec<Fr> = (0..cur.len() / 2).map(|j| cur[2 * j] + *c * cur[2 * j + 1]).collect();
        out.push(next.clone());
        cur = next;
    }
    out
}

fn check_fold(c: &FoldCase, ctx: &mut CaseCtx) -> Result<(), Failure> {
    let n = c.len as usize;
    let mut g0 = rng(c.seed);
    let mut f: Vec<Fr> = (0..n).map(|_| Fr::rand(&mut g0)).collect();
    match c.kind {
        1 => f.iter_mut().take(n / 2).for_each(|x| *x = Fr::zero()),
        2 => f[n - 1] = Fr::zero(),
        3 => f.iter_mut().for_each(|x| *x = Fr::from(1u64)),
        _ => {}
    }
    let ch: Vec<Fr> = c.challenges.iter().map(|x| x.to_f()).collect();
    let depth = ch.len();
    let folds = naive_folds(&f, &ch);
    let be: Vec<Fr> = f.iter().rev().cloned().collect();
    let be_stream = &be[..];
    ctx.label(&format!("depth:{depth}"));
    let rem = n % (1usize << depth);
    ctx.label_if(rem != 0, "length_not_multiple_of_2^depth");
    ctx.label_if(rem != 0 && rem <= (1usize << depth) / 2, "last_chunk_at_most_half_full");
    ctx.label_if(n <= (1usize << depth) / 2, "more_challenges_than_log_length");
    ctx.nontrivial_if(!n.is_power_of_two() || rem != 0);
    ctx.derived = Some(json!({"length": n, "depth": depth, "points": c.points.len(), "buffer": SK_BUFS[c.buf as usize]}));

    // tree: level by level, big-endian
    let tree = FoldedPolynomialTree::new(&be_stream, &ch);
    let items: Vec<(usize, Fr)> = match guard_plain(|| tree.iter().collect::<Vec<_>>()) {
        Out::Ok(v) => v,
        o => return ctx.fail(sig(P, "skzg", "folded_tree", "abort"), o.describe_nodebug()),
    };
    ctx.check(tree.depth() == depth && Iterable::len(&tree) == n, sig(P, "skzg", "folded_tree", "depth_or_len"), || "depth()/len()".into())?;
    for i in 1..=depth {
        let got: Vec<Fr> = items.iter().filter(|(l, _)| *l == i).map(|(_, v)| *v).collect();
        let keep = (n + (1 << i) - 1) >> i;
        let mut want: Vec<Fr> = folds[i - 1][..keep].to_vec();
        want.reverse();
        ctx.check(got == want, sig(P, "skzg", "folded_tree", "wrong_coefficients"), || {
            format!("length {n}, depth {depth}, level {i}: {} coefficients yielded, {} expected (first difference at {:?})", got.len(), want.len(), got.iter().zip(&want).position(|(a, b)| a != b))
        })?;
    }
    ctx.check(items.iter().all(|(l, _)| *l >= 1 && *l <= depth), sig(P, "skzg", "folded_tree", "level_out_of_range"), || "a level outside 1..=depth was yielded".into())?;
    // stream: the last level
    let st = FoldedPolynomialStream::new(&be_stream, &ch);
    let got: Vec<Fr> = match guard_plain(|| st.iter().collect::<Vec<_>>()) {
        Out::Ok(v) => v,
        o => return ctx.fail(sig(P, "skzg", "folded_stream", "abort"), o.describe_nodebug()),
    };
    let keep = (n + (1 << depth) - 1) >> depth;
    let mut want: Vec<Fr> = if depth == 0 { f.clone() } else { folds[depth - 1][..keep].to_vec() };
    want.reverse();
    ctx.check(got == want, sig(P, "skzg", "folded_stream", "wrong_coefficients"), || format!("length {n}, depth {depth}: {} yielded, {} expected", got.len(), want.len()))?;
    ctx.check(Iterable::len(&st) == want.len(), sig(P, "skzg", "folded_stream", "len"), || format!("len() = {}, {} coefficients", Iterable::len(&st), want.len()))?;
    if depth == 0 {
        return Ok(());
    }
    // commitments and openings of the folded polynomials against the time prover on the explicit folds
    let key_deg = (n + 15) / 16 * 16;
    let ck = super::c01::sk_keys(key_deg, 8, (c.key_seed % 3) as u8);
    let sck = CommitterKeyStream::from(&*ck);
    let buf = SK_BUFS[c.buf as usize];
    let trimmed: Vec<Vec<Fr>> = (1..=depth).map(|i| folds[i - 1][..((n + (1 << i) - 1) >> i)].to_vec()).collect();
    match guard_plain(|| sck.commit_folding(&tree, buf)) {
        Out::Ok(cs) => {
            ctx.check(cs.len() == depth, sig(P, "skzg", "commit_folding", "count"), || format!("{} commitments for depth {depth}", cs.len()))?;
            for (i, cm) in cs.iter().enumerate() {
                let want = ck.commit(&trimmed[i]);
                ctx.check(*cm == want, sig(P, "skzg", "commit_folding", "differs_from_time_commit"), || format!("length {n}, depth {depth}, buffer {buf}: commitment of fold {} differs", i + 1))?;
            }
        }
        o => return ctx.fail(sig(P, "skzg", "commit_folding", "abort"), format!("length {n}, depth {depth}, buffer {buf}: {}", o.describe_nodebug())),
    }
    let points = distinct_points(&c.points);
    let etas: Vec<Fr> = (0..depth).map(|i| Fr::rand(&mut rng(c.seed ^ (i as u64 + 1)))).collect();
    match guard_plain(|| sck.open_folding(tree, &points, &etas, buf)) {
        Out::Ok((rems, proof)) => {
            ctx.check(rems.len() == depth, sig(P, "skzg", "open_folding", "count"), || "remainder count".into())?;
            let mut acc = G1::zero();
            for i in 0..depth {
                let (r, q) = divide(&trimmed[i], &points);
                let mut got = rems[i].clone();
                got.reverse();
                ctx.check(got == r, sig(P, "skzg", "open_folding", "wrong_remainder"), || format!("length {n}, depth {depth}, fold {}: remainder differs from f_i mod Z", i + 1))?;
                let qc = ck.commit(&q);
                // the time prover's commitment to the quotient, as a group element, through a proof object
                let (_, as_proof) = ck.open(&[vec![Fr::zero()], q.clone()].concat(), &Fr::zero());
                let _ = qc;
                acc += as_proof.0.mul_bigint(etas[i].into_bigint());
            }
            ctx.check(proof.0 == acc.into_affine(), sig(P, "skzg", "open_folding", "proof_differs_from_time_prover"), || format!("length {n}, depth {depth}, {} points, buffer {buf}: combined proof differs", points.len()))?;
        }
        o => return ctx.fail(sig(P, "skzg", "open_folding", "abort"), format!("length {n}, depth {depth}, {} points: {}", points.len(), o.describe_nodebug())),
    }
    Ok(())
}

pub fn spec() -> PropertySpec {
    let mut units: Vec<Box<dyn Unit>> = Vec::new();
    units.push(PropUnit::new("C14:skzg:time-vs-space", 400, 4000, 8, |_| case().boxed(), check_basic));
    units.push(PropUnit::new("C14:skzg:folding", 1500, 15000, 8, |_| fold_case().boxed(), check_fold));
    PropertySpec {
        id: "C14",
        rule: "(a) Coefficient vectors of 1..=257 coefficients (random, low zeros, high zero, all zero), keys at least as large, 1-8 distinct points, 1-8 polynomials, MSM buffer sizes {1,2,3,7,64,2^10,2^20}, keys with a trapdoor known to the harness (the setup RNG is replayed): space.commit == time.commit == p(tau) G; space.open == time.open in value and proof, proof == ((p(tau)-p(alpha))/(tau-alpha)) G; space.open_multi_points remainder (big-endian) equals f mod Z computed by the harness and interpolates the evaluations, its proof equals time.open_multi_points and q(tau) G; the batched proof equals sum eta^i q_i(tau) G; verify / verify_multi_points accept the truth and reject value + delta. (b) Coefficient vectors of length 1..=130 with challenge lists of length 0..=7: FoldedPolynomialTree yields, per level and in big-endian order, exactly the ceil(n/2^i) low coefficients of fold_i of the input zero-padded to a multiple of 2^depth (fold_i[j] = f[2j] + c f[2j+1]); FoldedPolynomialStream yields the last level and reports its length; commit_folding equals the time commitments of the explicit folds; open_folding remainders equal f_i mod Z and its proof equals sum eta_i commit(f_i div Z) from the time prover. Non-trivial: a length that is not a power of two or not a multiple of 2^depth, a buffer smaller than the polynomial, or >= 2 points.",
        assumptions: vec!["the trapdoor is obtained by replaying the setup RNG (tau is the first draw of CommitterKey::new)"],
        units,
        watchdog_s: (1500, 7200),
    }
}

#[allow(dead_code)]
fn _k(_: u16) -> usize {
    pick(0, 1)
}
#[allow(dead_code)]
fn _ff<F: Field>(_: F) {}
