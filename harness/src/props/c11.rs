//! C11 — prover/verifier transcripts stay in lock-step; proofs are bound to them.

use super::common::*;
use crate::engine::{CaseCtx, Failure, PropUnit, PropertySpec, Unit};
use crate::model::{scn_with, Scn};
use crate::schemes::*;
use crate::session::Session;
use crate::types::*;
use crate::util::{accepted, guard, pick, rng, Out};
use ark_crypto_primitives::sponge::poseidon::PoseidonSponge;
use ark_ff::{UniformRand, Zero};
use ark_poly_commit::{BatchLCProof, Evaluations, LCTerm, LinearCombination, PolynomialCommitment, QuerySet};
use proptest::prelude::*;
use serde::{Deserialize, Serialize};
use serde_json::json;
use std::collections::{BTreeMap, BTreeSet};

const P: &str = "C11";

#[derive(Clone, Debug, Serialize, Deserialize)]
pub struct HOp {
    /// 0 open, 1 batch_open, 2 open_combinations
    pub kind: u8,
    pub choice: u8,
    pub seed: u64,
}

#[derive(Clone, Debug, Serialize, Deserialize)]
pub struct Case {
    pub scn: Scn,
    pub ops: Vec<HOp>,
    /// 0 none, 1 transposition of two proofs of the same kind, 2 verifier pre-state differs
    pub mutation: u8,
    pub sel: u64,
}

pub fn case() -> impl Strategy<Value = Case> {
    (
        scn_with(1, 4, 1),
        proptest::collection::vec((0u8..3, any::<u8>(), any::<u64>()).prop_map(|(kind, choice, seed)| HOp { kind, choice, seed }), 1..=6),
        prop_oneof![3 => Just(0u8), 2 => Just(1u8), 2 => Just(2u8)],
        any::<u64>(),
    )
        .prop_map(|(mut scn, ops, mutation, sel)| {
            if scn.pre == 0 && sel % 2 == 0 {
                scn.pre = sel | 1; // histories run on a pre-seeded sponge most of the time
            }
            Case { scn, ops, mutation, sel }
        })
}

enum Pf<S: Scheme> {
    Open(Proof<S>),
    Batch(BatchProof<S>),
    Comb(BatchLCProof<S::F, BatchProof<S>>),
}

struct Step<S: Scheme> {
    kind: u8,
    /// open: polynomial indices and point
    order: Vec<usize>,
    point: Option<S::Pt>,
    qs: QuerySet<S::Pt>,
    evals: Evaluations<S::Pt, S::F>,
    lcs: Vec<LinearCombination<S::F>>,
    /// polynomials touched by this operation
    touched: Vec<usize>,
}

fn plan<S: Scheme>(sess: &Session<S>, ops: &[HOp]) -> Vec<Step<S>> {
    let ng = sess.groups.len();
    ops.iter()
        .map(|o| match o.kind {
            0 => {
                let g = &sess.groups[(o.choice as usize) % ng];
                Step { kind: 0, order: g.polys.clone(), point: Some(g.point.clone()), qs: BTreeSet::new(), evals: BTreeMap::new(), lcs: vec![], touched: g.polys.clone() }
            }
            1 => {
                let mask = 1 + pick((o.choice as u16) << 8, (1usize << ng) - 1);
                let mut qs = BTreeSet::new();
                let mut ev = BTreeMap::new();
                let mut touched = Vec::new();
                for (i, g) in sess.groups.iter().enumerate() {
                    if mask >> i & 1 == 1 {
                        for p in &g.polys {
                            let l = sess.polys[*p].label().clone();
                            qs.insert((l.clone(), (g.label.clone(), g.point.clone())));
                            ev.insert((l, g.point.clone()), sess.true_value(*p, &g.point));
                            touched.push(*p);
                        }
                    }
                }
                Step { kind: 1, order: vec![], point: None, qs, evals: ev, lcs: vec![], touched }
            }
            _ => {
                // one combination per chosen label: random coefficients over the label's polynomials plus a constant.
                // Combinations of degree-bounded polynomials are refused by design (C06): use the unbounded ones,
                // and fall back to a plain open when the label has none.
                let g = &sess.groups[(o.choice as usize) % ng];
                let free: Vec<usize> = g.polys.iter().cloned().filter(|p| sess.meta[*p].bound.is_none()).collect();
                if free.is_empty() {
                    return Step { kind: 0, order: g.polys.clone(), point: Some(g.point.clone()), qs: BTreeSet::new(), evals: BTreeMap::new(), lcs: vec![], touched: g.polys.clone() };
                }
                let mut r = rng(o.seed);
                let mut terms: Vec<(S::F, LCTerm)> = free.iter().map(|p| (S::F::rand(&mut r), LCTerm::PolyLabel(sess.polys[*p].label().clone()))).collect();
                let mut value = S::F::zero();
                for ((c, _), p) in terms.iter().zip(&free) {
                    value += *c * sess.true_value(*p, &g.point);
                }
                if o.seed % 2 == 0 {
                    let k = S::F::rand(&mut r);
                    terms.push((k, LCTerm::One));
                    value += k;
                }
                let lc = LinearCombination::new("lc", terms);
                let mut qs = BTreeSet::new();
                qs.insert(("lc".to_string(), (g.label.clone(), g.point.clone())));
                let mut ev = BTreeMap::new();
                ev.insert(("lc".to_string(), g.point.clone()), value);
                Step { kind: 2, order: vec![], point: None, qs, evals: ev, lcs: vec![lc], touched: free }
            }
        })
        .collect()
}

fn prove<S: Scheme>(sess: &Session<S>, st: &Step<S>, sp: &mut PoseidonSponge<S::F>, seed: u64) -> Out<Pf<S>> {
    let ps: Vec<_> = sess.polys.iter().collect();
    let cs: Vec<_> = sess.comms.iter().collect();
    let ss: Vec<_> = sess.states.iter().collect();
    let mut r = rng(seed);
    match st.kind {
        0 => match sess.open_idx(&st.order, st.point.as_ref().unwrap(), sp, seed) {
            Out::Ok(p) => Out::Ok(Pf::Open(p)),
            Out::Err(e) => Out::Err(e),
            Out::Abort(e) => Out::Abort(e),
        },
        1 => match guard(|| S::PC::batch_open(&sess.keys.ck, ps, cs, &st.qs, sp, ss, Some(&mut r))) {
            Out::Ok(p) => Out::Ok(Pf::Batch(p)),
            Out::Err(e) => Out::Err(e),
            Out::Abort(e) => Out::Abort(e),
        },
        _ => match guard(|| S::PC::open_combinations(&sess.keys.ck, st.lcs.iter(), ps, cs, &st.qs, sp, ss, Some(&mut r))) {
            Out::Ok(p) => Out::Ok(Pf::Comb(p)),
            Out::Err(e) => Out::Err(e),
            Out::Abort(e) => Out::Abort(e),
        },
    }
}

fn verify<S: Scheme>(sess: &Session<S>, st: &Step<S>, pf: &Pf<S>, sp: &mut PoseidonSponge<S::F>, seed: u64) -> Out<bool> {
    let mut r = rng(seed);
    match (st.kind, pf) {
        (0, Pf::Open(p)) => {
            let z = st.point.as_ref().unwrap();
            let vals: Vec<S::F> = st.order.iter().map(|i| sess.true_value(*i, z)).collect();
            sess.check_idx(&st.order, z, vals, p, sp, seed)
        }
        (1, Pf::Batch(p)) => guard(|| S::PC::batch_check(&sess.keys.vk, sess.comms.iter(), &st.qs, &st.evals, p, sp, &mut r)),
        (2, Pf::Comb(p)) => guard(|| S::PC::check_combinations(&sess.keys.vk, st.lcs.iter(), sess.comms.iter(), &st.qs, &st.evals, p, sp, &mut r)),
        _ => Out::Err("proof of another operation kind".into()),
    }
}

pub fn check_trait<S: Scheme>(c: &Case, ctx: &mut CaseCtx) -> Result<(), Failure> {
    let tier = current_tier();
    let Ok(sess) = Session::<S>::build(&c.scn, tier) else {
        ctx.label("build_failed(C01)");
        return Ok(());
    };
    let steps = plan::<S>(&sess, &c.ops);
    let kinds: BTreeSet<u8> = steps.iter().map(|s| s.kind).collect();
    ctx.nontrivial_if(steps.len() >= 3 && kinds.len() >= 2);
    ctx.label(&format!("history_length:{}", steps.len()));
    ctx.label_if(sess.pre != 0, "pre_seeded_sponge");
    ctx.derived = Some(json!({"scheme": S::NAME, "key": sess.keys.info.desc, "history": steps.iter().map(|s| ["open", "batch_open", "open_combinations"][s.kind as usize]).collect::<Vec<_>>(),
        "polys": sess.meta.iter().map(|m| json!({"shape": m.shape, "deg": m.deg, "hiding": m.hiding})).collect::<Vec<_>>(), "mutation": c.mutation}));

    // ---- honest history: lock-step after every prefix ---------------------------------------------
    let mut sp_p = sess.sponge();
    let mut sp_v = sess.sponge();
    let mut proofs: Vec<Pf<S>> = Vec::new();
    for (i, st) in steps.iter().enumerate() {
        let pf = match prove::<S>(&sess, st, &mut sp_p, sess.seeds[1] ^ i as u64) {
            Out::Ok(p) => p,
            o => return ctx.fail(sig(P, S::NAME, "prover", o.kind()), format!("operation {i} of the history: {}", o.describe_nodebug())),
        };
        let r = verify::<S>(&sess, st, &pf, &mut sp_v, sess.seeds[2] ^ i as u64);
        ctx.check(accepted(&r), sig(P, S::NAME, "history", "honest_step_rejected"), || {
            format!("operation {i} ({}) of an honest history on a shared sponge: {}", ["open", "batch_open", "open_combinations"][st.kind as usize], r.describe())
        })?;
        ctx.check(sponge_digest(&sp_p) == sponge_digest(&sp_v), sig(P, S::NAME, "history", "sponges_out_of_step"), || {
            format!("after operation {i} ({}) prover and verifier sponges squeeze different values", ["open", "batch_open", "open_combinations"][st.kind as usize])
        })?;
        proofs.push(pf);
    }

    // ---- mutations ------------------------------------------------------------------------------
    let constant = |idx: &[usize]| idx.iter().any(|i| sess.meta[*i].deg == 0);
    match c.mutation {
        1 => {
            // transpose two proofs of the same kind
            let pairs: Vec<(usize, usize)> = (0..steps.len()).flat_map(|i| (i + 1..steps.len()).map(move |j| (i, j))).filter(|(i, j)| steps[*i].kind == steps[*j].kind).collect();
            if pairs.is_empty() {
                ctx.label("no_two_operations_of_one_kind");
                return Ok(());
            }
            let (i, j) = pairs[(c.sel % pairs.len() as u64) as usize];
            if constant(&steps[i].touched) || constant(&steps[j].touched) {
                ctx.label("constant_polynomial_not_asserted");
                return Ok(());
            }
            if let Some(lp) = S::transcript_collision_log2(&sess.keys, &sess.comms[steps[i].touched[0]]) {
                if lp > -40.0 {
                    ctx.label("toy_soundness_not_asserted");
                    return Ok(());
                }
            }
            ctx.label("mutation:transposition");
            ctx.nontrivial = true;
            let mut sp_v = sess.sponge();
            for k in 0..i {
                let _ = verify::<S>(&sess, &steps[k], &proofs[k], &mut sp_v, sess.seeds[2] ^ k as u64);
            }
            let r = verify::<S>(&sess, &steps[i], &proofs[j], &mut sp_v, sess.seeds[2] ^ i as u64);
            ctx.check(!accepted(&r), sig(P, S::NAME, "history", "transposed_proof_accepted"), || {
                format!("the proof of operation {j} was accepted at position {i} of the history")
            })
        }
        2 => {
            let st = &steps[0];
            if constant(&st.touched) {
                ctx.label("constant_polynomial_not_asserted");
                return Ok(());
            }
            if let Some(lp) = S::transcript_collision_log2(&sess.keys, &sess.comms[st.touched[0]]) {
                if lp > -40.0 {
                    ctx.label("toy_soundness_not_asserted");
                    return Ok(());
                }
            }
            ctx.label("mutation:verifier_pre_state");
            ctx.nontrivial = true;
            let other_pre = if c.sel % 3 == 0 && sess.pre != 0 { 0 } else { sess.pre ^ (1 + (c.sel >> 8)) };
            let mut sp_v = sponge::<S::F>(other_pre);
            if sponge_digest(&sp_v) == sponge_digest(&sess.sponge()) {
                return Ok(());
            }
            let r = verify::<S>(&sess, st, &proofs[0], &mut sp_v, sess.seeds[2]);
            ctx.check(!accepted(&r), sig(P, S::NAME, "history", "proof_accepted_under_another_transcript"), || {
                format!("the first proof of the history verified on a sponge with a different prior state (pre {} vs {})", other_pre, sess.pre)
            })
        }
        _ => Ok(()),
    }
}

pub fn spec() -> PropertySpec {
    let mut units: Vec<Box<dyn Unit>> = Vec::new();
    macro_rules! add {
        ($s:ty, $q:expr, $t:expr, $sh:expr) => {
            units.push(PropUnit::new(
                format!("C11:{}:histories", <$s as Scheme>::NAME),
                $q,
                $t,
                $sh,
                |_| case().boxed(),
                |c: &Case, ctx: &mut CaseCtx| check_trait::<$s>(c, ctx),
            ));
        };
    }
    add!(Marlin, 120, 960, 4);
    add!(Sonic, 120, 960, 4);
    add!(Ipa, 100, 800, 4);
    add!(Pst13, 120, 960, 4);
    add!(Hyrax, 140, 1120, 4);
    add!(ULigero, 140, 1120, 4);
    add!(MLigero, 140, 1120, 4);
    add!(Brakedown, 100, 800, 6);
    PropertySpec {
        id: "C11",
        rule: "Histories of 1-6 operations (open of the polynomials of one point label, batch_open of a generated sub-query-set, open_combinations of a random combination with an optional constant term) over one committed polynomial set, run on ONE prover sponge that was pre-seeded by absorbing generated data; the verifier replays the corresponding check / batch_check / check_combinations in order on ONE identically initialised sponge. Oracles: every check accepts, and after every prefix two field elements and 32 bytes squeezed from clones of the two sponges are equal. Mutations: the proofs of two same-kind operations transposed, or the verifier's sponge given a different prior state; the first affected check must not accept - asserted only when every polynomial opened by that operation is non-constant (the property's caveat) and, for the code-based schemes, when the chance that the Fiat-Shamir column positions coincide (n_ext^-t) is below 2^-40. Non-trivial: a history of >= 3 operations with >= 2 different kinds, or an asserted mutation.",
        assumptions: vec!["combination operations range over the unbounded polynomials of a label (combinations of degree-bounded polynomials are refused by design, C06)"],
        units,
        watchdog_s: (1800, 7200),
    }
}
