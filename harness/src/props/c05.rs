//! C05 — batched verification is as strict as verifying every query on its own.

use super::c01::{kzg_hiding, kzg_keys, sk_keys, sk_poly, distinct_points};
use super::c02::delta;
use super::common::*;
use crate::engine::{CaseCtx, Failure, PropUnit, PropertySpec, Unit};
use crate::model::{fraw_point, poly_raw, scn_with, PolyRaw, Scn};
use crate::replay::{challenges, Schedule};
use crate::schemes::*;
use crate::session::Session;
use crate::types::*;
use crate::util::{accepted, guard, guard_plain, rng, FRaw, Out};
use ark_ff::{Field, One, UniformRand, Zero};
use ark_poly::{DenseUVPolynomial, Polynomial};
use ark_poly_commit::streaming_kzg::VerifierKey;
use ark_poly_commit::{Evaluations, QuerySet};
use proptest::prelude::*;
use serde::{Deserialize, Serialize};
use serde_json::json;

const P: &str = "C05";

#[derive(Clone, Debug, Serialize, Deserialize)]
pub struct Case {
    pub scn: Scn,
    /// 0 all true, 1 single false, 2 plain cancelling pair inside one label, 3 plain cancelling pair across labels,
    /// 4 challenge-weighted cancellation across two labels carrying one point value,
    /// 5 proofs swapped, 6 one proof duplicated over another, 7 one proof missing, 8 one proof surplus,
    /// 9 a group element added to one label's proof and subtracted from another's (cancels under equal randomizers),
    /// 10 the first label's proof replaced by a prover-built forgery of the attack catalogue, with its false claims
    pub variant: u8,
    pub sel: u64,
}

pub fn case() -> impl Strategy<Value = Case> {
    (
        scn_with(2, 5, 2),
        prop_oneof![
            1 => Just(0u8), 3 => Just(1u8), 2 => Just(2u8), 2 => Just(3u8), 3 => Just(4u8),
            2 => Just(5u8), 1 => Just(6u8), 1 => Just(7u8), 1 => Just(8u8), 2 => Just(9u8), 2 => Just(10u8)
        ],
        any::<u64>(),
    )
        .prop_map(|(mut scn, variant, sel)| {
            // C05 is about batches: keep few distinct point values so that labels share them often
            if scn.points.len() > 2 {
                scn.points.truncate(2);
            }
            Case { scn, variant, sel }
        })
}

/// Two proofs of one batch changed by +D / -D in the element the batch verifier accumulates with its
/// own randomizers (KZG-style witness, IPA final commitment key): each label's single check rejects, and
/// the batch equation is unchanged exactly when both labels get the same randomizer.
pub trait Cancel: Scheme {
    fn cancel_pair(_a: &Proof<Self>, _b: &Proof<Self>, _seed: u64) -> Option<(Proof<Self>, Proof<Self>)> {
        None
    }
}
fn kzg_pair(a: &ark_poly_commit::kzg10::Proof<E>, b: &ark_poly_commit::kzg10::Proof<E>, seed: u64) -> (ark_poly_commit::kzg10::Proof<E>, ark_poly_commit::kzg10::Proof<E>) {
    use ark_ec::CurveGroup;
    use ark_ff::UniformRand;
    let d = G1::rand(&mut crate::util::rng(seed));
    let (mut a, mut b) = (*a, *b);
    a.w = (a.w + d).into_affine();
    b.w = (b.w - d).into_affine();
    (a, b)
}
impl Cancel for Marlin {
    fn cancel_pair(a: &Proof<Self>, b: &Proof<Self>, seed: u64) -> Option<(Proof<Self>, Proof<Self>)> {
        Some(kzg_pair(a, b, seed))
    }
}
impl Cancel for Sonic {
    fn cancel_pair(a: &Proof<Self>, b: &Proof<Self>, seed: u64) -> Option<(Proof<Self>, Proof<Self>)> {
        Some(kzg_pair(a, b, seed))
    }
}
impl Cancel for Pst13 {
    fn cancel_pair(a: &Proof<Self>, b: &Proof<Self>, seed: u64) -> Option<(Proof<Self>, Proof<Self>)> {
        use ark_ec::CurveGroup;
        use ark_ff::UniformRand;
        let d = G1::rand(&mut crate::util::rng(seed));
        let (mut a, mut b) = (a.clone(), b.clone());
        if a.w.is_empty() || b.w.is_empty() {
            return None;
        }
        let k = (seed % a.w.len().min(b.w.len()) as u64) as usize;
        a.w[k] = (a.w[k] + d).into_affine();
        b.w[k] = (b.w[k] - d).into_affine();
        Some((a, b))
    }
}
impl Cancel for Ipa {
    fn cancel_pair(a: &Proof<Self>, b: &Proof<Self>, seed: u64) -> Option<(Proof<Self>, Proof<Self>)> {
        use ark_ec::CurveGroup;
        use ark_ff::UniformRand;
        let d = JProj::rand(&mut crate::util::rng(seed));
        let (mut a, mut b) = (a.clone(), b.clone());
        a.final_comm_key = (a.final_comm_key + d).into_affine();
        b.final_comm_key = (b.final_comm_key - d).into_affine();
        Some((a, b))
    }
}
impl Cancel for Hyrax {}
impl Cancel for ULigero {}
impl Cancel for MLigero {}
impl Cancel for Brakedown {}

pub fn check_trait<S: Cancel + crate::attacks::Attack>(c: &Case, ctx: &mut CaseCtx) -> Result<(), Failure> {
    let tier = current_tier();
    // the prover-built forgeries work on polynomials without degree bounds: strip them for that mode
    let mut scn_forge = c.scn.clone();
    if c.variant == 10 {
        for p in scn_forge.polys.iter_mut() {
            p.bound = 0;
        }
    }
    let Ok(sess) = Session::<S>::build(&scn_forge, tier) else {
        ctx.label("build_failed(C01)");
        return Ok(());
    };
    let sel = c.sel;
    let qs = sess.query_set();
    let truth = sess.evaluations();
    let Out::Ok(bp) = sess.batch_open(&qs, &mut sess.sponge(), sess.seeds[1]) else {
        ctx.label("batch_open_failed(C01)");
        return Ok(());
    };
    let honest_proofs: Vec<Proof<S>> = bp.clone().into();
    let ng = sess.groups.len();
    if honest_proofs.len() != ng {
        return ctx.fail(
            sig(P, S::NAME, "batch_open", "proof_count"),
            format!("{} proofs for {} point labels", honest_proofs.len(), ng),
        );
    }
    let mut evals = truth.clone();
    let mut proofs = honest_proofs.clone();
    let mut all_true = true;
    let mut list_changed = false;
    let g1 = (sel % ng as u64) as usize;
    let g2 = if ng >= 2 { (g1 + 1 + ((sel >> 8) % (ng as u64 - 1)) as usize) % ng } else { g1 };
    let pick_poly = |g: usize, s: u64| -> usize {
        let ps = &sess.groups[g].polys;
        ps[(s % ps.len() as u64) as usize]
    };
    let key = |g: usize, p: usize| (sess.polys[p].label().clone(), sess.groups[g].point.clone());
    let d: S::F = delta(sel >> 16);
    let mut variant = c.variant;
    let mut note = String::new();
    match variant {
        0 => {}
        1 => {
            let p = pick_poly(g1, sel >> 24);
            *evals.get_mut(&key(g1, p)).unwrap() += d;
            all_true = false;
            ctx.nontrivial_if(g1 > 0);
        }
        2 => {
            let ps = &sess.groups[g1].polys;
            if ps.len() >= 2 {
                let a = ps[((sel >> 24) % ps.len() as u64) as usize];
                let b = ps[(((sel >> 24) % ps.len() as u64) as usize + 1) % ps.len()];
                *evals.get_mut(&key(g1, a)).unwrap() += d;
                *evals.get_mut(&key(g1, b)).unwrap() -= d;
                all_true = false;
                ctx.nontrivial = true;
            } else {
                variant = 1;
                let p = pick_poly(g1, sel >> 24);
                *evals.get_mut(&key(g1, p)).unwrap() += d;
                all_true = false;
            }
        }
        3 | 4 => {
            // two (label, polynomial) claims at different labels; prefer labels carrying the same point value
            let mut ga = g1;
            let mut gb = g2;
            for i in 0..ng {
                for j in 0..ng {
                    if i != j && sess.groups[i].value_idx == sess.groups[j].value_idx {
                        ga = i;
                        gb = j;
                    }
                }
            }
            let same_value = ga != gb && sess.groups[ga].value_idx == sess.groups[gb].value_idx;
            ctx.label_if(same_value, "cancelling_across_labels_sharing_a_point");
            if ga == gb {
                variant = 1;
                let p = pick_poly(g1, sel >> 24);
                *evals.get_mut(&key(g1, p)).unwrap() += d;
                all_true = false;
            } else {
                // the weighted variant needs polynomials without a degree bound (their value enters once)
                let pick_free = |g: usize, s: u64| -> usize {
                    let free: Vec<usize> = sess.groups[g].polys.iter().cloned().filter(|i| sess.meta[*i].bound.is_none()).collect();
                    if variant == 4 && !free.is_empty() { free[(s % free.len() as u64) as usize] } else { pick_poly(g, s) }
                };
                let pa = pick_free(ga, sel >> 24);
                let pb = pick_free(gb, sel >> 32);
                let ka = key(ga, pa);
                let kb = key(gb, pb);
                if ka == kb {
                    // the Evaluations map cannot hold two different claims for one (polynomial, point)
                    variant = 1;
                    *evals.get_mut(&ka).unwrap() += d;
                    all_true = false;
                } else {
                    let mut db = -d;
                    if variant == 4 {
                        if let (Some(sch), true) = (S::SCHEDULE, same_value) {
                            // replay the opening challenges of every label on one sponge, weight the second
                            // error so that the challenge-weighted sum over the two labels cancels
                            let mut sp = sess.sponge();
                            let mut ch: Vec<Vec<(S::F, Option<S::F>)>> = Vec::new();
                            for g in &sess.groups {
                                let hb: Vec<bool> = g.polys.iter().map(|i| sess.meta[*i].bound.is_some()).collect();
                                ch.push(challenges(sch, &hb, &mut sp));
                            }
                            let ia = sess.groups[ga].polys.iter().position(|x| *x == pa).unwrap();
                            let ib = sess.groups[gb].polys.iter().position(|x| *x == pb).unwrap();
                            let (ca, cb) = (ch[ga][ia].0, ch[gb][ib].0);
                            let unbounded = sess.meta[pa].bound.is_none() && sess.meta[pb].bound.is_none();
                            if !cb.is_zero() && unbounded {
                                db = -(ca * d) / cb;
                                note = "challenge-weighted".into();
                                ctx.label("weighted_cancellation");
                            }
                        }
                    }
                    *evals.get_mut(&ka).unwrap() += d;
                    *evals.get_mut(&kb).unwrap() += db;
                    all_true = false;
                    ctx.nontrivial = true;
                }
            }
        }
        5 => {
            if ng >= 2 {
                proofs.swap(g1, g2);
                list_changed = S::proof_bytes(&proofs[g1], true) != S::proof_bytes(&honest_proofs[g1], true);
                ctx.nontrivial = true;
            }
        }
        6 => {
            if ng >= 2 {
                proofs[g2] = proofs[g1].clone();
                list_changed = S::proof_bytes(&proofs[g2], true) != S::proof_bytes(&honest_proofs[g2], true);
                ctx.nontrivial = true;
            }
        }
        7 => {
            proofs.remove(g1);
            list_changed = true;
            ctx.nontrivial = true;
        }
        10 => {
            // a forgery built with the library's own prover for the first label in the batch's order (its
            // transcript starts from the session's initial sponge), presented with the false values it claims
            let g0 = &sess.groups[0];
            match S::forge(&sess, &g0.polys, &g0.point, sel >> 8) {
                Some(f) if f.point.is_none() && f.guard_log2.map(|lp| lp <= -40.0).unwrap_or(true) => {
                    let truth0: Vec<S::F> = g0.polys.iter().map(|i| sess.true_value(*i, &g0.point)).collect();
                    if f.claimed == truth0 {
                        variant = 0;
                    } else {
                        for (i, v) in g0.polys.iter().zip(&f.claimed) {
                            evals.insert(key(0, *i), *v);
                        }
                        proofs[0] = f.proof;
                        all_true = false;
                        list_changed = true;
                        ctx.nontrivial = true;
                        ctx.label("prover_built_forgery_in_the_batch");
                    }
                }
                _ => {
                    variant = 1;
                    let p = pick_poly(g1, sel >> 24);
                    *evals.get_mut(&key(g1, p)).unwrap() += d;
                    all_true = false;
                }
            }
        }
        9 => {
            // prefer two labels that carry the same point value (there the KZG batch equation is blind
            // to +D/-D under equal randomizers)
            let (mut ga, mut gb) = (g1, g2);
            for i in 0..ng {
                for j in 0..ng {
                    if i != j && sess.groups[i].value_idx == sess.groups[j].value_idx {
                        ga = i;
                        gb = j;
                    }
                }
            }
            match (ga != gb).then(|| S::cancel_pair(&proofs[ga], &proofs[gb], sel >> 24)).flatten() {
                Some((pa, pb)) => {
                    proofs[ga] = pa;
                    proofs[gb] = pb;
                    list_changed = true;
                    ctx.nontrivial = true;
                    ctx.label("cancelling_proof_elements_across_labels");
                    ctx.label_if(sess.groups[ga].value_idx == sess.groups[gb].value_idx, "cancelling_across_labels_sharing_a_point");
                }
                None => {
                    variant = 1;
                    let p = pick_poly(g1, sel >> 24);
                    *evals.get_mut(&key(g1, p)).unwrap() += d;
                    all_true = false;
                }
            }
        }
        _ => {
            let p = proofs[g1].clone();
            proofs.push(p);
            list_changed = true;
            ctx.nontrivial = true;
        }
    }
    ctx.label(&format!("variant:{variant}"));
    ctx.derived = Some(json!({"scheme": S::NAME, "labels": ng, "variant": variant, "note": note,
        "group_sizes": sess.groups.iter().map(|g| g.polys.len()).collect::<Vec<_>>(),
        "point_value_of_label": sess.groups.iter().map(|g| g.value_idx).collect::<Vec<_>>()}));
    let expected = all_true && !list_changed;

    // batch decision under several verifier seeds
    let bp2: BatchProof<S> = proofs.clone().into();
    let mut decisions = Vec::new();
    for k in 0..3u64 {
        let r = sess.batch_check(sess.verifier_comms(), &qs, &evals, &bp2, &mut sess.sponge(), sel ^ (k * 0x9e37));
        decisions.push(accepted(&r));
    }
    ctx.check(decisions.iter().all(|x| *x == decisions[0]), sig(P, S::NAME, "batch_check", "depends_on_verifier_rng"), || {
        format!("decisions under three verifier seeds: {decisions:?}")
    })?;
    let batch = decisions[0];

    // the same claims verified one point label at a time, on one threaded sponge, in the batch's own order
    let mut sp = sess.sponge();
    let mut single = Vec::new();
    for (gi, g) in sess.groups.iter().enumerate() {
        if gi >= proofs.len() {
            single.push(false);
            continue;
        }
        let vals: Vec<S::F> = g
            .polys
            .iter()
            .map(|i| evals[&(sess.polys[*i].label().clone(), g.point.clone())])
            .collect();
        let r = sess.check_idx(&g.polys, &g.point, vals, &proofs[gi], &mut sp, sel);
        single.push(accepted(&r));
    }
    let and = single.iter().all(|x| *x) && proofs.len() == ng;
    ctx.check(batch == and, sig(P, S::NAME, "batch_check", if batch { "accepts_what_single_checks_reject" } else { "rejects_what_single_checks_accept" }), || {
        format!("variant {variant} {note}: batch={batch}, per-label checks={single:?}, proofs={}/{}", proofs.len(), ng)
    })?;
    // Code-based schemes at toy sizes: a proof moved to another label (variants 5, 6) verifies there whenever
    // the Fiat-Shamir positions of the two transcript states coincide (probability n^-t); with all claims
    // true that is not a wrong decision. The ground-truth oracle is asserted only when that chance is <= 2^-40.
    if all_true && list_changed && matches!(variant, 5 | 6) {
        if let Some(lp) = S::transcript_collision_log2(&sess.keys, &sess.comms[0]) {
            if lp > -40.0 {
                ctx.label("toy_soundness_not_asserted");
                return Ok(());
            }
        }
    }
    ctx.check(batch == expected, sig(P, S::NAME, "batch_check", if batch { "false_batch_accepted" } else { "true_batch_rejected" }), || {
        format!("variant {variant} {note}: batch={batch}, expected={expected} (all claims true: {all_true}, proof list changed: {list_changed})")
    })?;
    Ok(())
}

// ------------------------------------------------------------------------------------------------
// KZG10::batch_check against KZG10::check, with points drawn from a small pool (shared points)
// ------------------------------------------------------------------------------------------------

#[derive(Clone, Debug, Serialize, Deserialize)]
pub struct KzgCase {
    pub max: u16,
    pub supported: u16,
    pub hiding_key: u8,
    pub seed: u8,
    pub pool: Vec<FRaw>,
    /// (polynomial, index into the point pool)
    pub items: Vec<(PolyRaw, u8)>,
    pub variant: u8,
    pub sel: u64,
}

pub fn kzg_case() -> impl Strategy<Value = KzgCase> {
    (
        any::<u16>(),
        any::<u16>(),
        any::<u8>(),
        0u8..4,
        proptest::collection::vec(fraw_point(), 1..=2),
        proptest::collection::vec((poly_raw(), any::<u8>()), 2..=5),
        0u8..6,
        any::<u64>(),
    )
        .prop_map(|(max, supported, hiding_key, seed, pool, items, variant, sel)| KzgCase {
            max,
            supported,
            hiding_key,
            seed,
            pool,
            items,
            variant,
            sel,
        })
}

pub fn check_kzg(c: &KzgCase, ctx: &mut CaseCtx) -> Result<(), Failure> {
    let Ok(keys) = kzg_keys(c.max, c.supported, c.hiding_key, c.seed) else { return Ok(()) };
    let powers = keys.powers();
    let mut crng = rng(c.sel ^ 0x11);
    let (mut comms, mut points, mut values, mut proofs) = (vec![], vec![], vec![], vec![]);
    for (pr, zi) in &c.items {
        let (coeffs, _) = uni_coeffs::<Fr>(keys.supported, pr);
        let p = UniPoly::from_coefficients_vec(coeffs);
        let h = kzg_hiding(&keys, pr.hiding);
        let z: Fr = c.pool[(*zi as usize) % c.pool.len()].to_f();
        let Out::Ok((comm, rand)) = guard(|| Kzg::commit(&powers, &p, h, Some(&mut crng))) else { return Ok(()) };
        let Out::Ok(proof) = guard(|| Kzg::open(&powers, &p, z, &rand)) else { return Ok(()) };
        values.push(p.evaluate(&z));
        comms.push(comm);
        points.push(z);
        proofs.push(proof);
    }
    let n = comms.len();
    let sel = c.sel;
    let d: Fr = delta(sel >> 8);
    let a = (sel % n as u64) as usize;
    // prefer a partner claim at the same point, adjacent if possible
    let same: Vec<usize> = (0..n).filter(|j| *j != a && points[*j] == points[a]).collect();
    let b = same.first().cloned().unwrap_or((a + 1) % n);
    let mut all_true = true;
    match c.variant {
        0 => {}
        1 => {
            values[a] += d;
            all_true = false;
        }
        2 | 3 => {
            values[a] += d;
            values[b] -= d;
            all_true = false;
            ctx.label_if(points[a] == points[b], "cancelling_pair_at_one_point");
            ctx.label_if(a.abs_diff(b) == 1, "cancelling_pair_adjacent");
        }
        4 => {
            proofs.swap(a, b);
            all_true = proofs[a] == proofs[b];
        }
        _ => {
            proofs[b] = proofs[a];
            all_true = false;
            // a duplicated proof is still right if the two honest proofs coincide
            if let Out::Ok(true) = guard(|| Kzg::check(&keys.vk, &comms[b], points[b], values[b], &proofs[b])) {
                all_true = true;
            }
        }
    }
    ctx.label(&format!("variant:{}", c.variant));
    ctx.nontrivial_if(c.variant != 0 && (a > 0 || b > 0));
    let mut dec = Vec::new();
    for k in 0..3u64 {
        let r = guard(|| Kzg::batch_check(&keys.vk, &comms, &points, &values, &proofs, &mut rng(sel ^ k)));
        dec.push(accepted(&r));
    }
    ctx.check(dec.iter().all(|x| *x == dec[0]), sig(P, "kzg10", "batch_check", "depends_on_verifier_rng"), || format!("{dec:?}"))?;
    let single: Vec<bool> = (0..n)
        .map(|i| accepted(&guard(|| Kzg::check(&keys.vk, &comms[i], points[i], values[i], &proofs[i]))))
        .collect();
    let and = single.iter().all(|x| *x);
    ctx.check(dec[0] == and, sig(P, "kzg10", "batch_check", if dec[0] { "accepts_what_single_checks_reject" } else { "rejects_what_single_checks_accept" }), || {
        format!("variant {}: batch={}, single={single:?}, claims {a},{b}", c.variant, dec[0])
    })?;
    if c.variant <= 3 {
        ctx.check(dec[0] == all_true, sig(P, "kzg10", "batch_check", if dec[0] { "false_batch_accepted" } else { "true_batch_rejected" }), || {
            format!("variant {}: batch={}, all claims true={all_true}", c.variant, dec[0])
        })?;
    }
    Ok(())
}

// ------------------------------------------------------------------------------------------------
// streaming verify_multi_points against the truth of every (polynomial, point) claim
// ------------------------------------------------------------------------------------------------

#[derive(Clone, Debug, Serialize, Deserialize)]
pub struct SkCase {
    pub polys: Vec<(u16, u64, u8)>,
    pub points: Vec<FRaw>,
    pub eta_seed: u64,
    pub variant: u8,
    pub sel: u64,
    pub seed: u8,
}

pub fn sk_case() -> impl Strategy<Value = SkCase> {
    (
        proptest::collection::vec((any::<u16>(), any::<u64>(), 0u8..4), 2..=6),
        proptest::collection::vec(fraw_point(), 2..=6),
        any::<u64>(),
        0u8..6,
        any::<u64>(),
        0u8..3,
    )
        .prop_map(|(polys, points, eta_seed, variant, sel, seed)| SkCase {
            polys,
            points,
            eta_seed,
            variant,
            sel,
            seed,
        })
}

pub fn check_sk(c: &SkCase, ctx: &mut CaseCtx) -> Result<(), Failure> {
    let polys: Vec<Vec<Fr>> = c.polys.iter().map(|(l, s, k)| sk_poly(*l, *s, *k)).collect();
    let points = distinct_points(&c.points);
    let maxlen = polys.iter().map(|p| p.len()).max().unwrap();
    let key_deg = ((maxlen - 1).max(points.len()) + 15) / 16 * 16;
    let ck = sk_keys(key_deg, 8, c.seed);
    let vk = VerifierKey::from(&*ck);
    // the batching challenge is the verifier's randomness: a uniformly random element
    let eta = Fr::rand(&mut rng(c.eta_seed));
    let Out::Ok(comms) = guard_plain(|| ck.batch_commit(&polys)) else { return Ok(()) };
    let mut evals: Vec<Vec<Fr>> = polys.iter().map(|p| points.iter().map(|z| horner(p, *z)).collect()).collect();
    let refs: Vec<&Vec<Fr>> = polys.iter().collect();
    let Out::Ok(proof) = guard_plain(|| ck.batch_open_multi_points(&refs, &points, &eta)) else { return Ok(()) };
    let sel = c.sel;
    let d: Fr = delta(sel);
    let (pa, za) = ((sel >> 8) as usize % polys.len(), (sel >> 16) as usize % points.len());
    let (pb, zb) = ((pa + 1) % polys.len(), (za + 1) % points.len());
    let mut all_true = true;
    match c.variant {
        0 => {}
        1 => {
            evals[pa][za] += d;
            all_true = false;
        }
        2 => {
            // cancelling across polynomials at one point
            evals[pa][za] += d;
            evals[pb][za] -= d;
            all_true = false;
        }
        3 => {
            // cancelling across points for one polynomial
            evals[pa][za] += d;
            evals[pa][zb] -= d;
            all_true = false;
        }
        4 => {
            // a surplus row of claims (for a polynomial nobody committed to) with non-zero values
            let mut g = rng(sel ^ 0x5c);
            evals.push(points.iter().map(|_| Fr::rand(&mut g) + Fr::from(1u64)).collect());
            all_true = false;
            ctx.label("surplus_claim_row");
        }
        _ => {
            // a surplus row that repeats a true row with one value changed
            let mut row = evals[pa].clone();
            row[za] += d;
            evals.push(row);
            all_true = false;
            ctx.label("surplus_claim_row");
        }
    }
    ctx.label(&format!("variant:{}", c.variant));
    ctx.nontrivial_if(c.variant >= 1);
    let r = guard(|| vk.verify_multi_points(&comms, &points, &evals, &proof, &eta).map(|_| true));
    ctx.check(accepted(&r) == all_true, sig(P, "skzg", "verify_multi_points", if all_true { "true_batch_rejected" } else { "false_batch_accepted" }), || {
        format!("variant {}: decision {}, claims ({pa},{za}) ({pb},{zb})", c.variant, r.describe())
    })
}

/// The batch scenarios of this module seen from C02 / C03: only *false acceptances* count (a batch with a
/// false claim, with cancelling errors, or with tampered proof elements that is accepted); disagreements
/// on the completeness side are C05's and C01's business and are dropped here.
pub fn only_false_acceptance<'a, C>(
    prop: &str,
    c: &C,
    ctx: &mut CaseCtx<'a>,
    inner: impl FnOnce(&C, &mut CaseCtx<'a>) -> Result<(), Failure>,
) -> Result<(), Failure> {
    let mut ic = CaseCtx::new_like(ctx);
    let r = inner(c, &mut ic);
    ctx.absorb(ic);
    match r {
        Err(f) if f.sig.contains("accepts_what_single_checks_reject") || f.sig.contains("false_batch_accepted") || f.sig.contains("false_claim_accepted") => {
            ctx.fail(f.sig.replacen("C05:", &format!("{prop}:"), 1), f.msg)
        }
        Err(_) => {
            ctx.label("completeness_side_disagreement(C05)");
            Ok(())
        }
        Ok(()) => Ok(()),
    }
}

/// units "correlated false claims in a batch" for another property (C02, C03)
pub fn correlated_units(prop: &'static str) -> Vec<Box<dyn Unit>> {
    let mut units: Vec<Box<dyn Unit>> = Vec::new();
    macro_rules! add {
        ($s:ty, $q:expr, $t:expr) => {
            units.push(PropUnit::new(
                format!("{prop}:{}:correlated-false-claims", <$s as Scheme>::NAME),
                $q,
                $t,
                4,
                |_| case().prop_filter("a variant with a false claim or a tampered proof", |c| !matches!(c.variant, 0 | 5 | 6 | 7 | 8)).boxed(),
                move |c: &Case, ctx: &mut CaseCtx| only_false_acceptance(prop, c, ctx, |c, ctx| check_trait::<$s>(c, ctx)),
            ));
        };
    }
    add!(Marlin, 100, 1000);
    add!(Sonic, 100, 1000);
    add!(Ipa, 60, 600);
    add!(Pst13, 100, 1000);
    units.push(PropUnit::new(format!("{prop}:kzg10:correlated-false-claims"), 200, 2000, 2, |_| kzg_case().boxed(), move |c: &KzgCase, ctx: &mut CaseCtx| {
        only_false_acceptance(prop, c, ctx, check_kzg)
    }));
    units.push(PropUnit::new(format!("{prop}:skzg:correlated-false-claims"), 100, 1000, 2, |_| sk_case().boxed(), move |c: &SkCase, ctx: &mut CaseCtx| {
        only_false_acceptance(prop, c, ctx, check_sk)
    }));
    units
}

pub fn spec() -> PropertySpec {
    let mut units: Vec<Box<dyn Unit>> = Vec::new();
    macro_rules! add {
        ($s:ty, $q:expr, $t:expr, $sh:expr) => {
            units.push(PropUnit::new(
                format!("C05:{}:batch-vs-single", <$s as Scheme>::NAME),
                $q,
                $t,
                $sh,
                |_| case().boxed(),
                |c: &Case, ctx: &mut CaseCtx| check_trait::<$s>(c, ctx),
            ));
        };
    }
    add!(Marlin, 200, 1600, 4);
    add!(Sonic, 200, 1600, 4);
    add!(Ipa, 160, 1280, 4);
    add!(Pst13, 200, 1600, 4);
    add!(Hyrax, 240, 1920, 4);
    add!(ULigero, 240, 1920, 2);
    add!(MLigero, 240, 1920, 4);
    add!(Brakedown, 200, 1600, 4);
    units.push(PropUnit::new("C05:kzg10:batch-vs-single", 400, 3200, 2, |_| kzg_case().boxed(), check_kzg));
    units.push(PropUnit::new("C05:skzg:multi-vs-truth", 300, 2400, 2, |_| sk_case().boxed(), check_sk));
    PropertySpec {
        id: "C05",
        rule: "Query sets with >=2 point labels (few distinct point values, so labels share them) over 2-5 polynomials; variants: all true, one false claim, plain cancelling pair (+d,-d) inside one label, across two labels, challenge-weighted cancellation across two labels that carry one point value (opening challenges replayed by the harness; Marlin/Sonic/PST13 schedules), proofs swapped / duplicated / one missing / one surplus, a random group element added to the accumulated proof element of one label and subtracted from another's (KZG witness, PST13 witness, IPA final key), the first label's proof replaced by a prover-built forgery of C03's catalogue (IPA: identity-padded generators; code-based: window forgery). Oracles: (a) the batch decision is the same under three verifier RNG seeds; (b) it equals the AND of the scheme's own single-point checks run label by label on one threaded sponge with the same proof list; (c) it equals the ground truth (accept iff every claim is true and the proof list is the honest one; swapped or duplicated proofs count as changed only if their bytes differ). KZG10::batch_check is compared with KZG10::check on claims whose points come from a pool of <=2 values (adjacent same-point claims included); streaming verify_multi_points is compared with the truth of every (polynomial, point) claim under a random batching challenge, including surplus rows of claims beyond the committed polynomials. Non-trivial: a false claim outside the first label, a cancelling pair, or a proof-list change.",
        assumptions: vec![
            "the batching challenge / verifier RNG are honest randomness (degenerate challenges such as eta in {0,1} are outside the property)",
            "challenge-weighted cancellation *inside* one label is not generated: the library leaves absorbing the claimed values to the caller, so such claims verify by design",
        ],
        units,
        watchdog_s: (1800, 7200),
    }
}

#[allow(dead_code)]
fn _t(_: &QuerySet<Fr>, _: &Evaluations<Fr, Fr>, _: Schedule) -> bool {
    Fr::ONE.is_one()
}
