//! C16 — public algebraic helpers satisfy their defining identities.

use super::common::*;
use crate::engine::{CaseCtx, Failure, PropUnit, PropertySpec, Unit};
use crate::model::{fraw, fraw_point, poly_raw, PolyRaw};
use crate::schemes::*;
use crate::types::*;
use crate::util::{pick, FRaw};
use ark_ff::{Field, One, Zero};
use ark_poly::{DenseUVPolynomial, Polynomial};
use ark_poly_commit::ipa_pc::SuccinctCheckPolynomial;
use ark_poly_commit::{evaluate_query_set, LCTerm, LabeledPolynomial, LinearCombination, QuerySet};
use proptest::prelude::*;
use serde::{Deserialize, Serialize};
use serde_json::json;
use std::collections::{BTreeMap, BTreeSet};

const P: &str = "C16";
const LABELS: [&str; 4] = ["a", "b", "c", "d"];

#[derive(Clone, Debug, Serialize, Deserialize)]
pub struct OpRaw {
    /// 0: += (c, &lc)  1: -= (c, &lc)  2: += &lc  3: -= &lc  4: += c  5: -= c  6: *= c  7: push((c, term))
    pub op: u8,
    pub coef: FRaw,
    /// operand: index into the pool of base combinations, or the accumulator itself
    pub operand: u8,
}

#[derive(Clone, Debug, Serialize, Deserialize)]
pub struct LcCase {
    /// base combinations: lists of (coefficient, label index or 4 for One)
    pub pool: Vec<Vec<(FRaw, u8)>>,
    pub ops: Vec<OpRaw>,
    pub assign: [FRaw; 4],
}

fn lc_case() -> impl Strategy<Value = LcCase> {
    (
        proptest::collection::vec(proptest::collection::vec((fraw(), 0u8..5), 0..5), 1..4),
        proptest::collection::vec((0u8..8, fraw(), any::<u8>()).prop_map(|(op, coef, operand)| OpRaw { op, coef, operand }), 1..=12),
        [fraw(), fraw(), fraw(), fraw()],
    )
        .prop_map(|(pool, ops, assign)| LcCase { pool, ops, assign })
}

fn value(lc: &LinearCombination<Fr>, assign: &BTreeMap<String, Fr>) -> Fr {
    let mut acc = Fr::zero();
    for (c, t) in lc.iter() {
        match t {
            LCTerm::One => acc += *c,
            LCTerm::PolyLabel(l) => acc += *c * assign[l],
        }
    }
    acc
}

fn check_lc(c: &LcCase, ctx: &mut CaseCtx) -> Result<(), Failure> {
    let assign: BTreeMap<String, Fr> = LABELS.iter().zip(c.assign.iter()).map(|(l, v)| (l.to_string(), v.to_f())).collect();
    let term = |t: u8| if t >= 4 { LCTerm::One } else { LCTerm::PolyLabel(LABELS[t as usize].to_string()) };
    let pool: Vec<LinearCombination<Fr>> = c
        .pool
        .iter()
        .enumerate()
        .map(|(i, ts)| LinearCombination::new(format!("base{i}"), ts.iter().map(|(cf, t)| (cf.to_f::<Fr>(), term(*t))).collect::<Vec<_>>()))
        .collect();
    // `new` keeps the meaning of the term list it is given (repeated labels and constants included)
    for (i, ts) in c.pool.iter().enumerate() {
        let want: Fr = ts.iter().fold(Fr::zero(), |a, (cf, t)| {
            a + cf.to_f::<Fr>() * if *t >= 4 { Fr::one() } else { assign[LABELS[*t as usize]] }
        });
        let mut seen = BTreeSet::new();
        ctx.label_if(ts.iter().any(|(_, t)| !seen.insert(*t)), "new:repeated_term_in_the_list");
        ctx.check(value(&pool[i], &assign) == want && pool[i].label() == &format!("base{i}"), sig(P, "lc", "new", "value_not_preserved"), || {
            format!("LinearCombination::new on a list of {} terms: the combination's value differs from the sum of the listed terms", ts.len())
        })?;
    }
    let mut acc = LinearCombination::<Fr>::empty("acc");
    ctx.check(acc.is_empty() && value(&acc, &assign).is_zero(), sig(P, "lc", "empty", "not_empty"), || "empty() is not empty".into())?;
    let mut shadow = Fr::zero();
    let mut has_sub_scaled = false;
    let mut has_const_then_mul = false;
    let mut saw_const = false;
    for (step, o) in c.ops.iter().enumerate() {
        let k: Fr = o.coef.to_f();
        let operand: LinearCombination<Fr> = if (o.operand as usize) % (pool.len() + 1) == pool.len() { acc.clone() } else { pool[(o.operand as usize) % (pool.len() + 1)].clone() };
        let ov = value(&operand, &assign);
        saw_const |= operand.iter().any(|(c, t)| t.is_one() && !c.is_zero()) && o.op <= 3;
        let name = match o.op {
            0 => {
                acc += (k, &operand);
                shadow += k * ov;
                "+=(c,&lc)"
            }
            1 => {
                acc -= (k, &operand);
                shadow -= k * ov;
                has_sub_scaled = true;
                "-=(c,&lc)"
            }
            2 => {
                acc += &operand;
                shadow += ov;
                "+=&lc"
            }
            3 => {
                acc -= &operand;
                shadow -= ov;
                "-=&lc"
            }
            4 => {
                acc += k;
                shadow += k;
                saw_const |= !k.is_zero();
                "+=c"
            }
            5 => {
                acc -= k;
                shadow -= k;
                saw_const |= !k.is_zero();
                "-=c"
            }
            6 => {
                acc *= k;
                shadow *= k;
                has_const_then_mul |= saw_const;
                "*=c"
            }
            _ => {
                let t = term(o.operand % 5);
                let tv = match &t {
                    LCTerm::One => Fr::one(),
                    LCTerm::PolyLabel(l) => assign[l],
                };
                acc.push((k, t));
                shadow += k * tv;
                "push"
            }
        };
        ctx.label(&format!("op:{name}"));
        ctx.check(value(&acc, &assign) == shadow, sig(P, "lc", name, "value_not_preserved"), || {
            format!("after step {step} ({name}): value of the combination differs from the same arithmetic on the operands' values")
        })?;
        ctx.check(acc.label() == "acc", sig(P, "lc", name, "label_changed"), || "label changed".into())?;
    }
    ctx.nontrivial_if(has_sub_scaled || has_const_then_mul);
    ctx.label_if(has_const_then_mul, "scaling_after_constant");
    Ok(())
}

// ------------------------------------------------------------------------------------------------

#[derive(Clone, Debug, Serialize, Deserialize)]
pub struct QsCase {
    pub polys: Vec<PolyRaw>,
    pub points: Vec<FRaw>,
    /// (polynomial choice, point label choice, point choice)
    pub queries: Vec<(u8, u8, u8)>,
}

fn qs_case() -> impl Strategy<Value = QsCase> {
    (
        proptest::collection::vec(poly_raw(), 1..=4),
        proptest::collection::vec(fraw_point(), 1..=3),
        proptest::collection::vec((any::<u8>(), 0u8..4, any::<u8>()), 1..=8),
    )
        .prop_map(|(polys, points, queries)| QsCase { polys, points, queries })
}

fn check_qs(c: &QsCase, ctx: &mut CaseCtx) -> Result<(), Failure> {
    let polys: Vec<LabeledPolynomial<Fr, UniPoly>> = c
        .polys
        .iter()
        .enumerate()
        .map(|(i, r)| LabeledPolynomial::new(format!("p{i}"), UniPoly::from_coefficients_vec(uni_coeffs::<Fr>(12, r).0), None, None))
        .collect();
    let pts: Vec<Fr> = c.points.iter().map(|p| p.to_f()).collect();
    let mut qs: QuerySet<Fr> = BTreeSet::new();
    // Usually one point per point label (what the batching code assumes): the label index fixes the point.
    // One case in four lets a label be reused for different points - the property speaks of every queried
    // (label, point) pair, and evaluate_query_set itself does not look at point labels.
    let reuse = c.queries.len() >= 2 && (c.queries[0].0 as usize + c.queries[0].2 as usize) % 4 == 0;
    let mut label_point: BTreeMap<u8, usize> = BTreeMap::new();
    let mut reused = false;
    for (p, l, z) in &c.queries {
        let own = (*z as usize) % pts.len();
        let zi = if reuse {
            if let Some(prev) = label_point.get(l) {
                reused |= *prev != own;
            }
            label_point.insert(*l, own);
            own
        } else {
            *label_point.entry(*l).or_insert(own)
        };
        qs.insert((format!("p{}", (*p as usize) % polys.len()), (format!("q{l}"), pts[zi])));
    }
    ctx.label_if(reused, "point_label_reused_for_two_points");
    let ev = match crate::util::guard_plain(|| evaluate_query_set(polys.iter(), &qs)) {
        crate::util::Out::Ok(e) => e,
        o => return ctx.fail(sig(P, "evaluate_query_set", "call", "abort"), o.describe_nodebug()),
    };
    let want: BTreeSet<(String, Fr)> = qs.iter().map(|(l, (_, z))| (l.clone(), *z)).collect();
    let have: BTreeSet<(String, Fr)> = ev.keys().cloned().collect();
    ctx.nontrivial_if(want.len() < qs.len() || qs.len() >= 3);
    ctx.label_if(want.len() < qs.len(), "labels_share_a_point");
    ctx.check(have == want, sig(P, "evaluate_query_set", "keys", "wrong_key_set"), || format!("{} keys returned, {} (label, point) pairs queried", have.len(), want.len()))?;
    for ((l, z), v) in &ev {
        let i: usize = l[1..].parse().unwrap();
        let direct = horner(polys[i].polynomial().coeffs(), *z);
        ctx.check(*v == direct, sig(P, "evaluate_query_set", "value", "wrong_evaluation"), || format!("value for ({l}, point) differs from the polynomial's evaluation"))?;
    }
    Ok(())
}

// ------------------------------------------------------------------------------------------------

#[derive(Clone, Debug, Serialize, Deserialize)]
pub struct ScCase {
    pub challenges: Vec<FRaw>,
    pub point: FRaw,
}

fn check_sc(c: &ScCase, ctx: &mut CaseCtx) -> Result<(), Failure> {
    let ch: Vec<JFr> = c.challenges.iter().map(|x| x.to_f()).collect();
    let z: JFr = c.point.to_f();
    let k = ch.len();
    ctx.nontrivial_if(k >= 2);
    ctx.label(&format!("k:{k}"));
    let p = SuccinctCheckPolynomial(ch.clone());
    let coeffs = p.compute_coeffs();
    ctx.check(coeffs.len() == 1 << k, sig(P, "succinct_check_polynomial", "compute_coeffs", "length"), || format!("{} coefficients for {k} challenges", coeffs.len()))?;
    // own expansion of prod_i (1 + u_i X^(2^(k-i))), i = 1..k
    let mut own = vec![JFr::one()];
    for (i, u) in ch.iter().enumerate() {
        let step = 1usize << (k - (i + 1));
        let mut next = vec![JFr::zero(); own.len() + step];
        for (j, cj) in own.iter().enumerate() {
            next[j] += *cj;
            next[j + step] += *cj * u;
        }
        own = next;
    }
    own.resize(1 << k, JFr::zero());
    ctx.check(coeffs == own, sig(P, "succinct_check_polynomial", "compute_coeffs", "not_the_product_expansion"), || "coefficient vector differs from the expansion of prod (1 + u_i X^(2^(k-i)))".into())?;
    let e = p.evaluate(z);
    ctx.check(e == horner(&coeffs, z), sig(P, "succinct_check_polynomial", "evaluate", "differs_from_coefficients"), || "evaluate(z) != Horner(compute_coeffs(), z)".into())
}

pub fn spec() -> PropertySpec {
    let mut units: Vec<Box<dyn Unit>> = Vec::new();
    units.push(PropUnit::new("C16:lc:operator-sequences", 40000, 400000, 8, |_| lc_case().boxed(), check_lc));
    units.push(PropUnit::new("C16:evaluate_query_set", 20000, 200000, 4, |_| qs_case().boxed(), check_qs));
    units.push(PropUnit::new(
        "C16:succinct_check_polynomial",
        20000,
        200000,
        4,
        |_| (proptest::collection::vec(fraw(), 0..=10), fraw()).prop_map(|(challenges, point)| ScCase { challenges, point }).boxed(),
        check_sc,
    ));
    PropertySpec {
        id: "C16",
        rule: "LinearCombination: random operator sequences (1-12 steps) of += / -= with (coeff, &lc) and &lc (operand drawn from a pool of generated base combinations or the accumulator itself), += / -= constants, *= and push, over coefficients from {0, 1, -1, small, random}; a shadow evaluator applies the same arithmetic to the operands' values under a random assignment label -> F, and after every step value(result) must equal it. evaluate_query_set: generated labelled polynomials and query sets with shared labels and points; the result must have exactly the keys {(label, point)} of the query set, each with the polynomial's own evaluation (Horner). SuccinctCheckPolynomial: challenge vectors of length 0..10 and points; compute_coeffs has length 2^k and equals the harness's own expansion of prod (1 + u_i X^(2^(k-i))); evaluate(z) equals Horner over those coefficients. Non-trivial: a sequence with -= (coeff, &lc) or a scaling after a constant term; query sets with labels sharing a point; k >= 2.",
        assumptions: vec!["one point per point label in query sets (documented precondition)"],
        units,
        watchdog_s: (900, 7200),
    }
}

#[allow(dead_code)]
fn _f<F: Field>(_: F) {}
#[allow(dead_code)]
fn _p(_: UniPoly) -> usize {
    pick(0, 1) + UniPoly::from_coefficients_vec(vec![]).degree()
}
