//! C07 — hiding commitments and proofs are blinded with fresh, sufficient randomness.

use super::c01::{kzg_case, kzg_hiding, kzg_keys, KzgCase};
use super::common::*;
use crate::engine::{CaseCtx, Failure, PropUnit, PropertySpec, Unit};
use crate::model::{scn, Scn};
use crate::oracle::{naive_sum, Alg, ProofBlind};
use crate::replay::challenges;
use crate::schemes::*;
use crate::session::Session;
use crate::types::*;
use crate::util::{guard, rng, ser, Out};
use ark_ec::{AffineRepr, CurveGroup};
use ark_ff::{One, PrimeField, Zero};
use ark_poly::{DenseUVPolynomial, Polynomial};
use ark_poly_commit::{LabeledPolynomial, PCCommitmentState, PolynomialCommitment};
use proptest::prelude::*;
use serde::{Deserialize, Serialize};
use serde_json::json;

const P: &str = "C07";

#[derive(Clone, Debug, Serialize, Deserialize)]
pub struct Case {
    pub scn: Scn,
    /// second commit seed (None = same seed as the first run)
    pub seed2: Option<u64>,
    pub open_seed2: u64,
}

pub fn case() -> impl Strategy<Value = Case> {
    (scn(4), prop_oneof![1 => Just(None), 3 => any::<u64>().prop_map(Some)], any::<u64>()).prop_map(
        |(mut scn, seed2, open_seed2)| {
            // hiding is the subject: make most polynomials hiding
            for (i, p) in scn.polys.iter_mut().enumerate() {
                if p.hiding == 0 && (p.seed >> 7) % 4 != 0 {
                    p.hiding = 1 + ((p.seed >> 11) as u8 % 250) + (i as u8 % 3);
                }
            }
            Case { scn, seed2, open_seed2 }
        },
    )
}

fn commit_all<S: Scheme>(
    sess: &Session<S>,
    seed: Option<u64>,
) -> Out<(Vec<ark_poly_commit::LabeledCommitment<Comm<S>>>, Vec<State<S>>)> {
    let ps: Vec<_> = sess.polys.iter().collect();
    match seed {
        Some(s) => {
            let mut r = rng(s);
            guard(|| S::PC::commit(&sess.keys.ck, ps, Some(&mut r)))
        }
        None => guard(|| S::PC::commit(&sess.keys.ck, ps, None)),
    }
}

pub fn check_trait<S: Alg>(c: &Case, ctx: &mut CaseCtx, always_hiding: bool) -> Result<(), Failure> {
    let tier = current_tier();
    let mut scn = c.scn.clone();
    scn.perm_p = 0; // commit in index order so that runs are comparable position by position
    let Ok(sess) = Session::<S>::build(&scn, tier) else {
        ctx.label("build_failed(C01)");
        return Ok(());
    };
    let keys = &sess.keys;
    let n = sess.n();
    let hides: Vec<bool> = sess.meta.iter().map(|m| m.hiding.is_some() || always_hiding).collect();
    let any_hiding = hides.iter().any(|x| *x);
    ctx.label_if(any_hiding, "has_hiding");
    ctx.nontrivial_if(sess.meta.iter().any(|m| m.hiding.is_some() && (m.bound.is_some() || m.hiding.unwrap() >= 2)) || (any_hiding && n >= 2));
    ctx.derived = Some(sess.describe());

    // ---- structural identity between commitment, returned state and public key elements --------
    for i in 0..n {
        let m = &sess.meta[i];
        let parts = S::comm_parts(sess.comms[i].commitment());
        let naive = match S::naive_parts(keys, sess.polys[i].polynomial(), m.bound) {
            Ok(v) => v,
            Err(e) => return ctx.fail(sig(P, S::NAME, "naive", "undefined"), e),
        };
        ctx.check(parts.len() == naive.len(), sig(P, S::NAME, "commit", "part_count"), || {
            format!("commitment has {} parts, expected {}", parts.len(), naive.len())
        })?;
        let blind = match S::blinding(keys, &sess.states[i], m.bound) {
            Ok(b) => b,
            Err(e) => return ctx.fail(sig(P, S::NAME, "state", "unreadable"), e),
        };
        if hides[i] {
            let h = m.hiding.unwrap_or(1);
            let want = S::expected_coeffs(keys, h);
            let mut rand_bytes: Vec<Vec<u8>> = Vec::new();
            for (k, part) in parts.iter().enumerate() {
                let Some(b) = blind.get(k).and_then(|x| x.as_ref()) else {
                    return ctx.fail(
                        sig(P, S::NAME, "commit", "hiding_requested_but_not_blinded"),
                        format!("polynomial {i} ({}, hiding {h}) part {k}: returned state carries no randomness", m.shape),
                    );
                };
                ctx.check(*part - naive[k] == b.term, sig(P, S::NAME, "commit", "blinding_identity"), || {
                    format!("polynomial {i} ({}) part {k}: commitment - naive_commit != sum r_j * hiding generators", m.shape)
                })?;
                ctx.check(b.ncoeffs >= want, sig(P, S::NAME, "commit", "too_few_random_coefficients"), || {
                    format!("polynomial {i} hiding {h}: {} random coefficients, expected at least {want}", b.ncoeffs)
                })?;
                ctx.check(b.all_nonzero && b.all_distinct, sig(P, S::NAME, "commit", "degenerate_randomness"), || {
                    format!("polynomial {i} part {k}: blinding coefficients not all non-zero and distinct")
                })?;
                ctx.check(!b.term.is_zero(), sig(P, S::NAME, "commit", "zero_blinding_term"), || "blinding term is the identity".into())?;
                rand_bytes.push(b.bytes.clone());
            }
            if S::NAME != "hyrax" && rand_bytes.len() == 2 {
                ctx.check(rand_bytes[0] != rand_bytes[1], sig(P, S::NAME, "commit", "shifted_randomness_reused"), || {
                    "plain and degree-bound parts are blinded with the same randomness".into()
                })?;
            }
            if S::NAME == "hyrax" {
                let mut rb = rand_bytes.clone();
                rb.sort();
                rb.dedup();
                ctx.check(rb.len() == rand_bytes.len(), sig(P, S::NAME, "commit", "row_randomness_reused"), || "two rows share a blinder".into())?;
            }
        } else {
            for (k, part) in parts.iter().enumerate() {
                ctx.check(*part == naive[k], sig(P, S::NAME, "commit", "non_hiding_not_key_defined"), || {
                    format!("polynomial {i} ({}) part {k}: non-hiding commitment differs from the naive key-defined sum", m.shape)
                })?;
                ctx.check(blind.get(k).map(|b| b.is_none()).unwrap_or(true), sig(P, S::NAME, "commit", "non_hiding_state_has_randomness"), || {
                    format!("polynomial {i}: state of a non-hiding commitment carries randomness")
                })?;
            }
            if m.bound.is_none() {
                let empty = ser(&<State<S> as PCCommitmentState>::empty());
                ctx.check(S::state_bytes(&sess.states[i]) == empty, sig(P, S::NAME, "commit", "non_hiding_state_not_empty"), || {
                    "state of a non-hiding, unbounded commitment is not empty()".into()
                })?;
            }
        }
    }

    // ---- seed sensitivity -----------------------------------------------------------------------
    let s1 = sess.seeds[0];
    let Out::Ok((c1, st1)) = commit_all::<S>(&sess, Some(s1)) else { return Ok(()) };
    let s2 = c.seed2.unwrap_or(s1);
    let Out::Ok((c2, st2)) = commit_all::<S>(&sess, Some(s2)) else { return Ok(()) };
    ctx.label(if s1 == s2 { "equal_seeds" } else { "different_seeds" });
    for i in 0..n {
        let same_c = ser(c1[i].commitment()) == ser(c2[i].commitment());
        let same_s = S::state_bytes(&st1[i]) == S::state_bytes(&st2[i]);
        if s1 == s2 || !hides[i] {
            ctx.check(same_c && (same_s || S::NAME == "hyrax" && s1 != s2), sig(P, S::NAME, "commit", if s1 == s2 { "not_reproducible_from_seed" } else { "non_hiding_not_deterministic" }), || {
                format!("polynomial {i}: equal inputs gave different {}", if same_c { "states" } else { "commitments" })
            })?;
        } else {
            ctx.check(!same_c && !same_s, sig(P, S::NAME, "commit", "rng_ignored"), || {
                format!("polynomial {i} (hiding): independent RNG streams gave equal {}", if same_c { "commitments" } else { "states" })
            })?;
        }
    }

    // ---- N repeated commitments from one continuing RNG are pairwise distinct --------------------
    if let Some(i) = (0..n).find(|i| hides[*i]) {
        let mut r = rng(s1 ^ 0x8888);
        let mut seen: Vec<Vec<u8>> = Vec::new();
        for _ in 0..8 {
            if let Out::Ok((cc, _)) = guard(|| S::PC::commit(&keys.ck, [&sess.polys[i]], Some(&mut r))) {
                seen.push(ser(cc[0].commitment()));
            }
        }
        let total = seen.len();
        seen.sort();
        seen.dedup();
        ctx.check(seen.len() == total && total == 8, sig(P, S::NAME, "commit", "repeated_commitments_collide"), || {
            format!("{} distinct commitments out of {total} from one continuing RNG", seen.len())
        })?;
        // no RNG + hiding => refused
        let lp = &sess.polys[i];
        let r0 = guard(|| S::PC::commit(&keys.ck, [lp], None));
        ctx.check(!matches!(r0, Out::Ok(_)), sig(P, S::NAME, "commit", "hiding_without_rng_served"), || {
            "commit of a hiding polynomial without an RNG returned Ok".into()
        })?;
    }

    // ---- hiding bounds at and just beyond what the key's hiding generators cover ------------------------
    // (the generator above only makes admissible requests). Whatever the library does with the request -
    // refuse it or serve it - a returned commitment must still be the naive commitment plus the blinding
    // term of the returned state over the key's hiding generators, with at least h+2 coefficients.
    if S::HAS_HIDING && !always_hiding {
        for (i, m) in sess.meta.iter().enumerate().take(2) {
            let mut hs: Vec<usize> = vec![keys.info.hiding, keys.info.hiding + 1];
            if let (true, Some(d)) = (S::HIDING_LE_BOUND, m.bound) {
                hs.extend([d, d + 1]);
            }
            hs.sort();
            hs.dedup();
            for h in hs.into_iter().filter(|h| *h >= 1) {
                let lp = ark_poly_commit::LabeledPolynomial::new(sess.polys[i].label().clone(), sess.polys[i].polynomial().clone(), m.bound, Some(h));
                let mut r = rng(s1 ^ 0xb0 ^ h as u64);
                let Out::Ok((cm, st)) = guard(|| S::PC::commit(&keys.ck, [&lp], Some(&mut r))) else {
                    ctx.label("boundary_hiding_bound_refused");
                    continue;
                };
                ctx.label("boundary_hiding_bound_served");
                let parts = S::comm_parts(cm[0].commitment());
                let (Ok(naive), blind) = (S::naive_parts(keys, sess.polys[i].polynomial(), m.bound), S::blinding(keys, &st[0], m.bound)) else { continue };
                let blind = match blind {
                    Ok(b) => b,
                    Err(e) => {
                        return ctx.fail(sig(P, S::NAME, "commit", "blinding_beyond_the_hiding_generators"), format!("polynomial {i}, bound {:?}, hiding {h}: commit returned Ok but the returned state cannot be expressed over the key's hiding generators: {e}", m.bound));
                    }
                };
                for (k, part) in parts.iter().enumerate() {
                    let Some(b) = blind.get(k).and_then(|x| x.as_ref()) else {
                        return ctx.fail(sig(P, S::NAME, "commit", "hiding_requested_but_not_blinded"), format!("polynomial {i}, hiding {h}: part {k} carries no randomness"));
                    };
                    ctx.check(*part - naive[k] == b.term, sig(P, S::NAME, "commit", "blinding_identity"), || {
                        format!("polynomial {i}, bound {:?}, hiding {h} (key hiding {}): commitment - naive_commit != sum r_j * hiding generators", m.bound, keys.info.hiding)
                    })?;
                    ctx.check(b.ncoeffs >= S::expected_coeffs(keys, h), sig(P, S::NAME, "commit", "too_few_random_coefficients"), || {
                        format!("polynomial {i} hiding {h}: {} random coefficients", b.ncoeffs)
                    })?;
                }
            }
        }
    }

    // ---- opening proofs -------------------------------------------------------------------------
    let g = &sess.groups[0];
    let order = g.polys.clone();
    let z = &g.point;
    let Out::Ok(p1) = sess.open_idx(&order, z, &mut sess.sponge(), sess.seeds[1]) else { return Ok(()) };
    let group_hides = order.iter().any(|i| hides[*i]);
    match S::proof_blinding(&p1) {
        ProofBlind::RandomV(rv) => {
            if let Some(sch) = S::SCHEDULE {
                let hb: Vec<bool> = order.iter().map(|i| sess.meta[*i].bound.is_some()).collect();
                let ch = challenges(sch, &hb, &mut sess.sponge());
                let mut acc = S::F::zero();
                let mut any = false;
                for (k, i) in order.iter().enumerate() {
                    if let Some((r, rs)) = S::blinding_eval(&sess.states[*i], z) {
                        if sess.meta[*i].hiding.is_some() {
                            any = true;
                        }
                        acc += ch[k].0 * r;
                        if let (Some(c2), Some(rs)) = (ch[k].1, rs) {
                            acc += c2 * rs;
                        }
                    }
                }
                if any {
                    ctx.check(rv == Some(acc), sig(P, S::NAME, "open", "random_v_not_blinding_evaluation"), || {
                        "proof.random_v differs from the challenge-weighted evaluation of the blinding polynomials".into()
                    })?;
                    ctx.label("random_v_checked");
                } else {
                    ctx.check(rv.is_none(), sig(P, S::NAME, "open", "random_v_without_hiding"), || "random_v present although nothing hides".into())?;
                }
            }
        }
        ProofBlind::Ipa(hc, rd) => {
            ctx.check(hc.is_some() == group_hides && rd.is_some() == group_hides, sig(P, S::NAME, "open", "hiding_comm_presence"), || {
                format!("hiding_comm present: {}, rand present: {}, some polynomial hides: {group_hides}", hc.is_some(), rd.is_some())
            })?;
            if group_hides {
                let Out::Ok(p2) = sess.open_idx(&order, z, &mut sess.sponge(), c.open_seed2) else { return Ok(()) };
                if let ProofBlind::Ipa(hc2, _) = S::proof_blinding(&p2) {
                    let same = hc2 == hc;
                    ctx.check(same == (c.open_seed2 == sess.seeds[1]), sig(P, S::NAME, "open", "open_rng_ignored"), || {
                        format!("hiding commitments of two openings equal: {same}, open seeds equal: {}", c.open_seed2 == sess.seeds[1])
                    })?;
                    ctx.label("ipa_open_rng_checked");
                }
            }
        }
        ProofBlind::Opaque => {
            // Hyrax: proofs are randomised by the open RNG
            let Out::Ok(p2) = sess.open_idx(&order, z, &mut sess.sponge(), c.open_seed2) else { return Ok(()) };
            let same = S::proof_bytes(&p1, true) == S::proof_bytes(&p2, true);
            ctx.check(same == (c.open_seed2 == sess.seeds[1]), sig(P, S::NAME, "open", "open_rng_ignored"), || {
                format!("two openings equal: {same}, open seeds equal: {}", c.open_seed2 == sess.seeds[1])
            })?;
        }
    }
    // proofs made from independently blinded commitments differ
    if s1 != s2 && order.iter().any(|i| hides[*i]) && S::NAME != "hyrax" {
        let ps: Vec<_> = order.iter().map(|i| &sess.polys[*i]).collect();
        let open_with = |cs: &Vec<ark_poly_commit::LabeledCommitment<Comm<S>>>, ss: &Vec<State<S>>| {
            let cc: Vec<_> = order.iter().map(|i| &cs[*i]).collect();
            let sv: Vec<_> = order.iter().map(|i| &ss[*i]).collect();
            let mut r = rng(sess.seeds[1]);
            let mut sp = sess.sponge();
            guard(|| S::PC::open(&keys.ck, ps.clone(), cc, z, &mut sp, sv, Some(&mut r)))
        };
        if let (Out::Ok(pa), Out::Ok(pb)) = (open_with(&c1, &st1), open_with(&c2, &st2)) {
            let non_const = order.iter().any(|i| hides[*i]);
            ctx.check(!non_const || S::proof_bytes(&pa, true) != S::proof_bytes(&pb, true), sig(P, S::NAME, "open", "proofs_equal_across_rng_streams"), || {
                "openings of independently blinded commitments are byte-identical".into()
            })?;
        }
    }
    Ok(())
}

fn check_kzg(c: &KzgCase, ctx: &mut CaseCtx) -> Result<(), Failure> {
    let Ok(keys) = kzg_keys(c.max, c.supported, c.hiding_key, c.seed) else { return Ok(()) };
    let powers = keys.powers();
    for (pr, zr) in &c.items {
        let (coeffs, shape) = uni_coeffs::<Fr>(keys.supported, pr);
        let p = UniPoly::from_coefficients_vec(coeffs);
        let h = kzg_hiding(&keys, if pr.hiding == 0 { (pr.seed % 200) as u8 } else { pr.hiding });
        let z: Fr = zr.to_f();
        let naive = naive_sum(&keys.powers_g, p.coeffs()).unwrap();
        let mut r1 = rng(c.seeds[0]);
        let Out::Ok((cm, rand)) = guard(|| Kzg::commit(&powers, &p, h, Some(&mut r1))) else { return Ok(()) };
        ctx.label(shape);
        match h {
            Some(h) => {
                ctx.label("has_hiding");
                ctx.nontrivial_if(h >= 2 || shape == "zero");
                let rc = rand.blinding_polynomial.coeffs();
                ctx.check(rc.len() >= h + 2, sig(P, "kzg10", "commit", "too_few_random_coefficients"), || {
                    format!("{} blinding coefficients for hiding bound {h} ({shape})", rc.len())
                })?;
                let term = naive_sum(&keys.powers_gamma, rc).map_err(|e| crate::engine::Failure { sig: sig(P, "kzg10", "commit", "blinding_exceeds_key"), msg: e })?;
                ctx.check(cm.0.into_group() - naive == term && !term.is_zero(), sig(P, "kzg10", "commit", "blinding_identity"), || {
                    format!("commitment - naive != sum r_j gamma^j ({shape})")
                })?;
                let mut r2 = rng(c.seeds[1]);
                if let Out::Ok((cm2, _)) = guard(|| Kzg::commit(&powers, &p, Some(h), Some(&mut r2))) {
                    ctx.check((cm2 == cm) == (c.seeds[0] == c.seeds[1]), sig(P, "kzg10", "commit", "rng_ignored"), || "seed sensitivity".into())?;
                }
                let r0 = guard(|| Kzg::commit(&powers, &p, Some(h), None));
                ctx.check(!matches!(r0, Out::Ok(_)), sig(P, "kzg10", "commit", "hiding_without_rng_served"), || "Ok without RNG".into())?;
                if let Out::Ok(pr) = guard(|| Kzg::open(&powers, &p, z, &rand)) {
                    ctx.check(pr.random_v == Some(rand.blinding_polynomial.evaluate(&z)), sig(P, "kzg10", "open", "random_v_not_blinding_evaluation"), || "random_v".into())?;
                }
            }
            None => {
                ctx.check(cm.0.into_group() == naive && rand.blinding_polynomial.is_zero(), sig(P, "kzg10", "commit", "non_hiding_not_key_defined"), || {
                    format!("non-hiding commitment differs from naive sum ({shape})")
                })?;
                if let Out::Ok(pr) = guard(|| Kzg::open(&powers, &p, z, &rand)) {
                    ctx.check(pr.random_v.is_none(), sig(P, "kzg10", "open", "random_v_without_hiding"), || "random_v".into())?;
                }
            }
        }
    }
    Ok(())
}

pub fn spec() -> PropertySpec {
    let mut units: Vec<Box<dyn Unit>> = Vec::new();
    macro_rules! add {
        ($s:ty, $q:expr, $t:expr, $sh:expr, $ah:expr) => {
            units.push(PropUnit::new(
                format!("C07:{}:blinding", <$s as Scheme>::NAME),
                $q,
                $t,
                $sh,
                |_| case().boxed(),
                |c: &Case, ctx: &mut CaseCtx| check_trait::<$s>(c, ctx, $ah),
            ));
        };
    }
    add!(Marlin, 200, 2000, 4, false);
    add!(Sonic, 200, 2000, 4, false);
    add!(Ipa, 200, 2000, 4, false);
    add!(Pst13, 200, 2000, 4, false);
    add!(Hyrax, 200, 2000, 4, true);
    units.push(PropUnit::new("C07:kzg10:blinding", 300, 3000, 2, |_| kzg_case().boxed(), check_kzg));
    PropertySpec {
        id: "C07",
        rule: "C01 scenarios with most polynomials hiding (h in 1..=supported), for KZG10, Marlin, Sonic, PST13, IPA and Hyrax. Oracles over public data: commitment - naive key-defined commitment == sum r_j * hiding generator_j with r the returned state (per part: plain / degree-bound / per Hyrax row; Sonic's shifted gamma window; PST13's per-variable gamma powers); the state holds at least h+2 (PST13: n(h+1)+1; IPA/Hyrax: one scalar per part/row) non-zero pairwise distinct coefficients; plain and degree-bound parts use different randomness; equal commit seeds reproduce commitments and states, different seeds change both for hiding polynomials; 8 repeated commitments from one continuing RNG are pairwise distinct; hiding without an RNG is refused; hiding bounds at and one beyond the key's hiding generators (and, for Sonic, at and one beyond the degree bound, whose shifted hiding window is shorter) are either refused or served with the same identity and coefficient count; non-hiding commitments equal the naive sum, carry no randomness and an empty() state; proof.random_v equals the challenge-weighted evaluation of the blinding polynomials (opening challenges replayed by the harness) and is None when nothing hides; IPA hiding_comm/rand present iff some opened polynomial hides and fresh per open RNG; Hyrax openings fresh per open RNG. Non-trivial: hiding together with a degree bound, or h >= 2, or several polynomials with hiding.",
        assumptions: vec![
            "'independent' randomness is checked structurally (count, non-zero, distinct, seed-sensitivity), not statistically",
            "random field elements collide or vanish with probability <= 2^-200",
        ],
        units,
        watchdog_s: (1500, 7200),
    }
}

#[allow(dead_code)]
fn _x(_: G1A) -> bool {
    Fr::one().is_one() && <Fr as PrimeField>::MODULUS_BIT_SIZE > 0 && LabeledPolynomial::<Fr, UniPoly>::new("x".into(), UniPoly::from_coefficients_vec(vec![]), None, None).degree() == 0
}
