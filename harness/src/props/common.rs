//! Helpers shared by the property modules.

use crate::engine::{CaseCtx, Failure, Tier, Unit};
use crate::model::Scn;
use crate::schemes::*;
use crate::session::Session;
use crate::util::is_identity;

/// Record the scenario class labels of DESIGN §3.2 and return whether the C01 non-triviality rule holds.
pub fn classify<S: Scheme>(sess: &Session<S>, ctx: &mut CaseCtx) -> bool {
    let mut nt = false;
    let mut seen_vals = std::collections::BTreeSet::new();
    let mut poly_points: std::collections::BTreeMap<usize, usize> = Default::default();
    for g in &sess.groups {
        if g.polys.len() >= 2 {
            ctx.label("multi_poly_per_label");
            nt = true;
        }
        if !seen_vals.insert(g.value_idx) {
            ctx.label("shared_point_value");
            nt = true;
        }
        for i in &g.polys {
            *poly_points.entry(*i).or_default() += 1;
        }
    }
    if poly_points.values().any(|c| *c >= 2) {
        ctx.label("poly_at_many_points");
    }
    for m in &sess.meta {
        if let Some(b) = m.bound {
            ctx.label("has_degree_bound");
            if b == m.deg {
                ctx.label("bound_eq_deg");
            } else {
                ctx.label("bound_gt_deg");
                nt = true;
            }
        }
        if let Some(h) = m.hiding {
            ctx.label("has_hiding");
            if h != m.deg {
                nt = true;
            }
        }
        match m.shape {
            "zero" => {
                ctx.label("zero_poly");
                nt = true;
            }
            "const" => ctx.label("const_poly"),
            "leading_zero" => {
                ctx.label("leading_zero");
                nt = true;
            }
            "mixed_monomial" | "dense_all_monomials" | "random_subset" => {
                ctx.label("mixed_monomial");
                nt = true;
            }
            "sparse" | "one_hot" => ctx.label("sparse_poly"),
            "max_degree" => ctx.label("max_degree_poly"),
            "vanishes_at_first_point" => {
                ctx.label("poly_vanishing_at_a_queried_point");
                nt = true;
            }
            _ => {}
        }
    }
    if !is_identity(&sess.perm_p) {
        ctx.label("permuted_prover");
        nt = true;
    }
    if !is_identity(&sess.perm_v) {
        ctx.label("permuted_verifier");
        nt = true;
    }
    let info = &sess.keys.info;
    if let Some(rb) = &info.requested_bounds {
        let mut s = rb.clone();
        s.sort();
        s.dedup();
        if &s != rb {
            ctx.label("unsorted_or_dup_bounds");
        }
    }
    if info.supported < info.max_degree {
        ctx.label("supported_lt_max");
    }
    nt
}

/// Build one unit per trait scheme from a generic check function.
/// `$budget(name) -> (cases_quick, cases_thorough, shards)`.
#[macro_export]
macro_rules! per_scheme_units {
    ($prop:expr, $sub:expr, $maxpolys:expr, $check:ident, $budget:expr, [$($s:ty),*]) => {{
        let mut v: Vec<Box<dyn $crate::engine::Unit>> = Vec::new();
        $(
            {
                let (cq, ct, sh): (u32, u32, usize) = ($budget)(<$s as $crate::schemes::Scheme>::NAME);
                v.push($crate::engine::PropUnit::new(
                    format!("{}:{}:{}", $prop, <$s as $crate::schemes::Scheme>::NAME, $sub),
                    cq, ct, sh,
                    |_t| { use proptest::strategy::Strategy; $crate::model::scn($maxpolys).boxed() },
                    |c: &$crate::model::Scn, ctx: &mut $crate::engine::CaseCtx| $check::<$s>(c, ctx),
                ));
            }
        )*
        v
    }};
}

pub fn tier_of(_scn: &Scn) -> Tier {
    // scenarios carry no tier; key shapes that differ by tier read the process-wide setting
    current_tier()
}

static TIER: std::sync::atomic::AtomicU8 = std::sync::atomic::AtomicU8::new(0);

pub fn set_tier(t: Tier) {
    TIER.store(if t.is_quick() { 0 } else { 1 }, std::sync::atomic::Ordering::SeqCst);
}

pub fn current_tier() -> Tier {
    if TIER.load(std::sync::atomic::Ordering::SeqCst) == 0 {
        Tier::Quick
    } else {
        Tier::Thorough
    }
}

pub fn sig(prop: &str, scheme: &str, stage: &str, class: &str) -> String {
    format!("{prop}:{scheme}:{stage}:{class}")
}

pub fn stage_fail(
    ctx: &mut CaseCtx,
    prop: &str,
    scheme: &str,
    stage: &str,
    o: &crate::util::Out<bool>,
) -> Result<(), Failure> {
    let class = match o {
        crate::util::Out::Ok(true) => return Ok(()),
        crate::util::Out::Ok(false) => "rejected",
        crate::util::Out::Err(_) => "err",
        crate::util::Out::Abort(_) => "abort",
    };
    ctx.fail(
        sig(prop, scheme, stage, class),
        format!("{stage} -> {}", o.describe()),
    )
}

#[allow(dead_code)]
pub fn unit_names(units: &[Box<dyn Unit>]) -> Vec<String> {
    units.iter().map(|u| u.name()).collect()
}
