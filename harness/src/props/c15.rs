//! C15 — PST13 parameters cover every monomial; any multivariate polynomial opens.

use super::common::*;
use crate::engine::{CaseCtx, EnumUnit, Failure, PropUnit, PropertySpec, Tier, Unit};
use crate::model::{scn, Scn};
use crate::schemes::*;
use crate::types::*;
use crate::util::{guard, rng, Out};
use ark_ec::{pairing::Pairing, AffineRepr};
use ark_ff::PrimeField;
use ark_poly::multivariate::{SparseTerm, Term};
use ark_poly_commit::{PCUniversalParams, PolynomialCommitment};
use proptest::prelude::*;
use rand_core::RngCore;
use serde::{Deserialize, Serialize};
use serde_json::json;
use std::collections::BTreeSet;

const P: &str = "C15";

#[derive(Clone, Debug, Serialize, Deserialize)]
pub struct GridCase {
    pub nv: usize,
    pub d: usize,
    pub seed: u64,
}

fn binom(n: usize, k: usize) -> usize {
    let mut r = 1usize;
    for i in 0..k {
        r = r * (n - i) / (i + 1);
    }
    r
}

fn rlc_pairs(a: &[G1A], b: &[G1A], seed: u64) -> (G1, G1) {
    let mut g = rng(seed);
    let (mut x, mut y) = (G1::default(), G1::default());
    for (p, q) in a.iter().zip(b) {
        let r = Fr::from(((g.next_u64() as u128) << 64) | g.next_u64() as u128);
        x += p.mul_bigint(r.into_bigint());
        y += q.mul_bigint(r.into_bigint());
    }
    (x, y)
}

pub fn check_grid(c: &GridCase, ctx: &mut CaseCtx) -> Result<(), Failure> {
    let (nv, d) = (c.nv, c.d);
    ctx.nontrivial_if(nv >= 2 && d >= 2);
    ctx.derived = Some(json!({"num_vars": nv, "max_degree": d, "expected_elements": binom(nv + d, d)}));
    let pp = match guard(|| Pst13PC::setup(d, Some(nv), &mut rng(0xb0b + c.seed))) {
        Out::Ok(p) => p,
        o => return ctx.fail(sig(P, "pst13", "setup", "refused"), format!("setup({d}, {nv}) -> {}", o.describe_nodebug())),
    };
    // 1. exactly one element per monomial of total degree <= d
    let want: BTreeSet<SparseTerm> = all_exponents(nv, d).iter().map(|e| term_of(e)).collect();
    let have: BTreeSet<SparseTerm> = pp.powers_of_g.keys().cloned().collect();
    ctx.check(want.len() == binom(nv + d, d), sig(P, "harness", "enumeration", "count"), || "harness enumeration is wrong".into())?;
    ctx.check(have == want, sig(P, "pst13", "setup", "monomial_set"), || {
        let missing: Vec<_> = want.difference(&have).take(3).collect();
        let extra: Vec<_> = have.difference(&want).take(3).collect();
        format!("{} elements published, {} expected; missing e.g. {:?}, unexpected e.g. {:?}", have.len(), want.len(), missing, extra)
    })?;
    ctx.check(pp.max_degree() == d && pp.num_vars == nv && pp.beta_h.len() == nv && pp.powers_of_gamma_g.len() == nv, sig(P, "pst13", "setup", "shape"), || "parameter shape".into())?;
    ctx.check(!pp.h.is_zero() && !pp.gamma_g.is_zero() && !pp.powers_of_g[&SparseTerm::new(vec![])].is_zero(), sig(P, "pst13", "setup", "identity_generator"), || "identity generator".into())?;
    // 2. every element is the generator scaled by its monomial at one trapdoor: G[m * x_i] = beta_i * G[m]
    let exps = all_exponents(nv, d);
    for i in 0..nv {
        let (mut up, mut base) = (Vec::new(), Vec::new());
        for e in &exps {
            if e.iter().sum::<usize>() < d {
                let mut e2 = e.clone();
                e2[i] += 1;
                up.push(pp.powers_of_g[&term_of(&e2)]);
                base.push(pp.powers_of_g[&term_of(e)]);
            }
        }
        let (x, y) = rlc_pairs(&up, &base, c.seed ^ i as u64);
        let ok = E::pairing(x, pp.h) == E::pairing(y, pp.beta_h[i]);
        if !ok {
            // locate
            let bad = (0..up.len()).find(|k| E::pairing(up[*k], pp.h) != E::pairing(base[*k], pp.beta_h[i]));
            return ctx.fail(sig(P, "pst13", "setup", "monomial_chain"), format!("variable {i}: a published element is not beta_{i} times the element of the monomial divided by x_{i} (pair {bad:?})"));
        }
        ctx.asserts += 1;
        // gamma powers of this variable: beta_i^(j+1) * gamma G, j = 0..=d
        let pg = &pp.powers_of_gamma_g[i];
        ctx.check(pg.len() == d + 1, sig(P, "pst13", "setup", "gamma_power_count"), || format!("{} gamma powers for variable {i}", pg.len()))?;
        let mut prev = pp.gamma_g;
        for (j, cur) in pg.iter().enumerate() {
            ctx.check(E::pairing(*cur, pp.h) == E::pairing(prev, pp.beta_h[i]), sig(P, "pst13", "setup", "gamma_chain"), || format!("powers_of_gamma_g[{i}][{j}]"))?;
            prev = *cur;
        }
    }
    // 3. trim keeps exactly the monomials up to the supported degree
    for s in 1..=d {
        let (ck, vk) = match guard(|| Pst13PC::trim(&pp, s, 0, None)) {
            Out::Ok(k) => k,
            o => return ctx.fail(sig(P, "pst13", "trim", "in_range_refused"), format!("trim(supported {s}) -> {}", o.describe_nodebug())),
        };
        let want_s: BTreeSet<SparseTerm> = all_exponents(nv, s).iter().map(|e| term_of(e)).collect();
        let have_s: BTreeSet<SparseTerm> = ck.powers_of_g.keys().cloned().collect();
        ctx.check(have_s == want_s && ck.powers_of_g.iter().all(|(k, v)| pp.powers_of_g[k] == *v), sig(P, "pst13", "trim", "monomial_set"), || {
            format!("trim(supported {s}) keeps {} monomials, expected {}", have_s.len(), want_s.len())
        })?;
        ctx.check(ck.powers_of_gamma_g.iter().zip(&pp.powers_of_gamma_g).all(|(a, b)| a[..] == b[..=s]) && ck.gamma_g == pp.gamma_g && ck.supported_degree == s && ck.max_degree == d && ck.num_vars == nv,
            sig(P, "pst13", "trim", "committer_key_fields"), || format!("committer key fields for supported {s}"))?;
        ctx.check(vk.g == pp.powers_of_g[&SparseTerm::new(vec![])] && vk.gamma_g == pp.gamma_g && vk.h == pp.h && vk.beta_h == pp.beta_h && vk.num_vars == nv && vk.supported_degree == s && vk.max_degree == d,
            sig(P, "pst13", "trim", "verifier_key_fields"), || format!("verifier key fields for supported {s}"))?;
    }
    let r = guard(|| Pst13PC::trim(&pp, d + 1, 0, None));
    ctx.check(!matches!(r, Out::Ok(_)), sig(P, "pst13", "trim", "supported_above_max_accepted"), || "trim(supported > max)".into())?;
    Ok(())
}

/// scenario whose polynomials are all genuinely multivariate shapes
fn mixed_scn() -> impl Strategy<Value = Scn> {
    scn(4).prop_map(|mut s| {
        for p in s.polys.iter_mut() {
            p.shape = match p.shape {
                0 => 7, // mixed monomial
                1 => 2, // random subset
                5 => 4, // dense over all monomials of a degree
                x => x,
            };
            p.bound = 0;
        }
        s
    })
}

fn check_open(c: &Scn, ctx: &mut CaseCtx) -> Result<(), Failure> {
    // completeness on mixed-monomial polynomials, with C15 signatures
    let mut inner = CaseCtx::new_like(ctx);
    let r = super::c01::check_trait::<Pst13>(c, &mut inner);
    ctx.absorb(inner);
    if let Err(f) = r {
        return ctx.fail(f.sig.replace("C01:", "C15:"), f.msg);
    }
    let mut inner = CaseCtx::new_like(ctx);
    let r = super::c02::check_trait::<Pst13>(c, &mut inner);
    ctx.absorb(inner);
    if let Err(f) = r {
        return ctx.fail(f.sig.replace("C02:", "C15:"), f.msg);
    }
    // C15's own non-triviality rule: some polynomial has a monomial with >= 2 distinct variables
    ctx.nontrivial = ctx.labels.contains("mixed_monomial");
    Ok(())
}

pub fn spec() -> PropertySpec {
    let mut units: Vec<Box<dyn Unit>> = Vec::new();
    units.push(EnumUnit::new(
        "C15:pst13:parameter-grid",
        12,
        |tier: Tier, seed: u64| {
            let mut v = Vec::new();
            let seeds = if tier.is_quick() { 1 } else { 3 };
            for s in 0..seeds {
                for nv in 1..=6 {
                    for d in 1..=6 {
                        v.push(GridCase { nv, d, seed: seed.wrapping_add(s) % 1000 });
                    }
                }
            }
            v
        },
        check_grid,
    ));
    units.push(PropUnit::new("C15:pst13:mixed-monomial-openings", 300, 3000, 8, |_| mixed_scn().boxed(), check_open));
    PropertySpec {
        id: "C15",
        rule: "(a) Exhaustive grid (num_vars, max_degree) in 1..=6 x 1..=6 (quick: one setup seed; thorough: three): the key set of powers_of_g equals the harness's own enumeration of all exponent vectors of total degree <= D (count C(n+D,D)); for every variable i and every monomial m with deg(m*x_i) <= D, e(G[m*x_i], H) = e(G[m], beta_i H) (random-combination pairing check per variable, all pairs, with localisation); the gamma chain powers_of_gamma_g[i][j] likewise; trim for every supported <= D keeps exactly the monomials of degree <= supported with the same elements, gamma prefixes and verifier-key fields; trim beyond max is refused. (b) Generated openings on polynomials with mixed monomials (single mixed monomial, random subsets of all monomials, dense over all monomials), with and without hiding, at generated points: the completeness oracle of C01 and the statement-perturbation oracle of C02. Non-trivial: grid points with >= 2 variables and degree >= 2; scenarios containing a monomial with >= 2 distinct variables.",
        assumptions: vec!["pairing identities are checked with 128-bit random combinations (soundness error 2^-128) and located per pair on failure"],
        units,
        watchdog_s: (1500, 7200),
    }
}
