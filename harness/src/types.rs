//! Concrete instantiations of the library's schemes, the Merkle/column hash configuration of the
//! code-based schemes (the library only ships these for its own tests), and the test sponge.

use ark_crypto_primitives::{
    crh::{sha256::Sha256, CRHScheme, TwoToOneCRHScheme},
    merkle_tree::{ByteDigestConverter, Config},
    sponge::poseidon::{PoseidonConfig, PoseidonSponge},
    sponge::CryptographicSponge,
};
use ark_ff::PrimeField;
use ark_poly::{
    multivariate::{SparsePolynomial, SparseTerm},
    univariate::DensePolynomial,
    DenseMultilinearExtension,
};
use ark_poly_commit::{
    hyrax::HyraxPC,
    ipa_pc::InnerProductArgPC,
    linear_codes::{LinearCodePCS, MultilinearBrakedown, MultilinearLigero, UnivariateLigero},
    marlin_pc::MarlinKZG10,
    marlin_pst13_pc::MarlinPST13,
    sonic_pc::SonicKZG10,
};
use ark_serialize::CanonicalSerialize;
use blake2::Blake2s256;
use digest::Digest;
use rand_core::RngCore;
use std::borrow::Borrow;
use std::marker::PhantomData;

pub type E = ark_bls12_381::Bls12_381;
pub type Fr = ark_bls12_381::Fr;
pub type G1 = ark_bls12_381::G1Projective;
pub type G1A = ark_bls12_381::G1Affine;
pub type G2 = ark_bls12_381::G2Projective;
pub type G2A = ark_bls12_381::G2Affine;
pub type JFr = ark_ed_on_bls12_381::Fr;
pub type JAff = ark_ed_on_bls12_381::EdwardsAffine;
pub type JProj = ark_ed_on_bls12_381::EdwardsProjective;

pub type UniPoly = DensePolynomial<Fr>;
pub type JUniPoly = DensePolynomial<JFr>;
pub type MVPoly = SparsePolynomial<Fr, SparseTerm>;
pub type MLE = DenseMultilinearExtension<Fr>;

pub type Kzg = ark_poly_commit::kzg10::KZG10<E, UniPoly>;
pub type MarlinPC = MarlinKZG10<E, UniPoly>;
pub type SonicPC = SonicKZG10<E, UniPoly>;
pub type IpaPC = InnerProductArgPC<JAff, Blake2s256, JUniPoly>;
pub type Pst13PC = MarlinPST13<E, MVPoly>;
pub type HyraxPCT = HyraxPC<G1A, MLE>;
pub type MlPst = ark_poly_commit::multilinear_pc::MultilinearPC<E>;

// ---- hashers (same shape as bench-templates / the library's test-only helpers) ----

pub struct LeafIdentityHasher;

impl CRHScheme for LeafIdentityHasher {
    type Input = Vec<u8>;
    type Output = Vec<u8>;
    type Parameters = ();

    fn setup<R: RngCore>(_: &mut R) -> Result<Self::Parameters, ark_crypto_primitives::Error> {
        Ok(())
    }

    fn evaluate<T: Borrow<Self::Input>>(
        _: &Self::Parameters,
        input: T,
    ) -> Result<Self::Output, ark_crypto_primitives::Error> {
        Ok(input.borrow().to_vec())
    }
}

pub struct FieldToBytesColHasher<F, D>
where
    F: PrimeField + CanonicalSerialize,
    D: Digest,
{
    _phantom: PhantomData<(F, D)>,
}

impl<F, D> CRHScheme for FieldToBytesColHasher<F, D>
where
    F: PrimeField + CanonicalSerialize,
    D: Digest,
{
    type Input = Vec<F>;
    type Output = Vec<u8>;
    type Parameters = ();

    fn setup<R: RngCore>(_rng: &mut R) -> Result<Self::Parameters, ark_crypto_primitives::Error> {
        Ok(())
    }

    fn evaluate<T: Borrow<Self::Input>>(
        _parameters: &Self::Parameters,
        input: T,
    ) -> Result<Self::Output, ark_crypto_primitives::Error> {
        let mut dig = D::new();
        let mut buf = Vec::new();
        input.borrow().serialize_compressed(&mut buf).unwrap();
        dig.update(buf);
        Ok(dig.finalize().to_vec())
    }
}

pub type LeafH = LeafIdentityHasher;
pub type CompressH = Sha256;
pub type ColHasher = FieldToBytesColHasher<Fr, Blake2s256>;

pub struct MTConfig;

impl Config for MTConfig {
    type Leaf = Vec<u8>;
    type LeafDigest = <LeafH as CRHScheme>::Output;
    type LeafInnerDigestConverter = ByteDigestConverter<Self::LeafDigest>;
    type InnerDigest = <CompressH as TwoToOneCRHScheme>::Output;
    type LeafHash = LeafH;
    type TwoToOneHash = CompressH;
}

pub type ULigeroEnc = UnivariateLigero<Fr, MTConfig, UniPoly, ColHasher>;
pub type MLigeroEnc = MultilinearLigero<Fr, MTConfig, MLE, ColHasher>;
pub type BrakedownEnc = MultilinearBrakedown<Fr, MTConfig, MLE, ColHasher>;
pub type ULigeroPC = LinearCodePCS<ULigeroEnc, Fr, UniPoly, MTConfig, ColHasher>;
pub type MLigeroPC = LinearCodePCS<MLigeroEnc, Fr, MLE, MTConfig, ColHasher>;
pub type BrakedownPC = LinearCodePCS<BrakedownEnc, Fr, MLE, MTConfig, ColHasher>;
pub type LigeroParams = ark_poly_commit::linear_codes::LigeroPCParams<Fr, MTConfig, ColHasher>;
pub type BrakedownParams = ark_poly_commit::linear_codes::BrakedownPCParams<Fr, MTConfig, ColHasher>;

// ---- sponge ----

/// The (insecure, test-only) Poseidon parameters the repository's own tests use.
pub fn poseidon_params<F: PrimeField>() -> PoseidonConfig<F> {
    let full_rounds = 8;
    let partial_rounds = 31;
    let alpha = 17;
    let mds = vec![
        vec![F::one(), F::zero(), F::one()],
        vec![F::one(), F::one(), F::zero()],
        vec![F::zero(), F::one(), F::one()],
    ];
    let mut ark = Vec::new();
    let mut rng = crate::util::rng(0x706f7365_69646f6e);
    for _ in 0..(full_rounds + partial_rounds) {
        let mut res = Vec::new();
        for _ in 0..3 {
            res.push(F::rand(&mut rng));
        }
        ark.push(res);
    }
    PoseidonConfig::new(full_rounds, partial_rounds, alpha, mds, ark, 2, 1)
}

/// A sponge whose initial state is determined by `pre`: 0 = fresh, otherwise some absorbed data.
pub fn sponge<F: PrimeField + ark_crypto_primitives::sponge::Absorb>(pre: u64) -> PoseidonSponge<F> {
    let mut s = PoseidonSponge::new(&poseidon_params::<F>());
    if pre != 0 {
        let bytes = pre.to_le_bytes().to_vec();
        s.absorb(&bytes);
        if pre % 3 == 0 {
            s.absorb(&F::from(pre));
        }
        if pre % 5 == 0 {
            let _ = s.squeeze_bytes(3);
        }
    }
    s
}

/// Observable digest of a sponge state: two field elements and 32 bytes squeezed from a clone.
pub fn sponge_digest<F: PrimeField>(s: &PoseidonSponge<F>) -> (Vec<F>, Vec<u8>) {
    let mut c = s.clone();
    let f = c.squeeze_field_elements::<F>(2);
    let b = c.squeeze_bytes(32);
    (f, b)
}
