//! Sponge replay: the harness's own derivation of the opening challenges each scheme squeezes,
//! following the documented schedule (not the library's code path).

use ark_crypto_primitives::sponge::{poseidon::PoseidonSponge, CryptographicSponge};
use ark_ff::PrimeField;
use ark_poly_commit::CHALLENGE_SIZE;

pub fn squeeze_chal<F: PrimeField>(sp: &mut PoseidonSponge<F>) -> F {
    sp.squeeze_field_elements_with_sizes::<F>(&[CHALLENGE_SIZE])[0]
}

#[derive(Clone, Copy, Debug, PartialEq, Eq)]
pub enum Schedule {
    /// Marlin / PST13: one challenge per polynomial, plus one per degree bound
    Marlin,
    /// Sonic: one challenge up front, then one after every polynomial
    Sonic,
    /// IPA: one up front, then two after every polynomial (the second pair member is used for the shifted part)
    Ipa,
}

/// Challenges for one `open`/`check` call: for each polynomial `(c, c_shifted)`.
/// `has_bound[j]` says whether polynomial j carries a degree bound. Advances the sponge exactly as the scheme does.
pub fn challenges<F: PrimeField>(
    sch: Schedule,
    has_bound: &[bool],
    sp: &mut PoseidonSponge<F>,
) -> Vec<(F, Option<F>)> {
    let mut out = Vec::new();
    match sch {
        Schedule::Marlin => {
            for b in has_bound {
                let c = squeeze_chal(sp);
                let c2 = if *b { Some(squeeze_chal(sp)) } else { None };
                out.push((c, c2));
            }
        }
        Schedule::Sonic => {
            let mut cur = squeeze_chal(sp);
            for _ in has_bound {
                out.push((cur, None));
                cur = squeeze_chal(sp);
            }
        }
        Schedule::Ipa => {
            let mut cur = squeeze_chal(sp);
            for b in has_bound {
                let c = cur;
                cur = squeeze_chal(sp);
                let c2 = if *b { Some(cur) } else { None };
                cur = squeeze_chal(sp);
                out.push((c, c2));
            }
        }
    }
    out
}
