//! Scheme adapters: how each of the eight `PolynomialCommitment` implementations interprets the raw
//! scenario choices (key shape, polynomial shapes, points), plus a memo of universal parameters.

use crate::engine::Tier;
use crate::model::{KeyRaw, PolyRaw};
use crate::types::*;
use crate::util::{guard, pick, rng, FRaw, Out};
use ark_crypto_primitives::sponge::Absorb;
use ark_ff::{Field, One, PrimeField, UniformRand, Zero};
use ark_poly::{
    multivariate::{SparseTerm, Term},
    DenseMVPolynomial, DenseUVPolynomial, Polynomial,
};
use ark_poly_commit::{PCCommitterKey, PolynomialCommitment};
use rand_core::RngCore;
use serde_json::{json, Value};
use std::any::Any;
use std::collections::HashMap;
use std::fmt::Debug;
use std::hash::Hash;
use std::sync::{Arc, Mutex, OnceLock};

pub type PcOf<S> = <S as Scheme>::PC;
pub type Up<S> =
    <PcOf<S> as PolynomialCommitment<<S as Scheme>::F, <S as Scheme>::P>>::UniversalParams;
pub type Ck<S> =
    <PcOf<S> as PolynomialCommitment<<S as Scheme>::F, <S as Scheme>::P>>::CommitterKey;
pub type Vk<S> = <PcOf<S> as PolynomialCommitment<<S as Scheme>::F, <S as Scheme>::P>>::VerifierKey;
pub type Comm<S> = <PcOf<S> as PolynomialCommitment<<S as Scheme>::F, <S as Scheme>::P>>::Commitment;
pub type State<S> =
    <PcOf<S> as PolynomialCommitment<<S as Scheme>::F, <S as Scheme>::P>>::CommitmentState;
pub type Proof<S> = <PcOf<S> as PolynomialCommitment<<S as Scheme>::F, <S as Scheme>::P>>::Proof;
pub type BatchProof<S> =
    <PcOf<S> as PolynomialCommitment<<S as Scheme>::F, <S as Scheme>::P>>::BatchProof;
pub type PcErr<S> = <PcOf<S> as PolynomialCommitment<<S as Scheme>::F, <S as Scheme>::P>>::Error;

#[derive(Clone, Debug)]
pub struct KeyInfo {
    pub max_degree: usize,
    /// supported degree as reported by the committer key (univariate) / supported total degree (PST13)
    pub supported: usize,
    /// sorted, de-duplicated enforced bounds (None / empty = no bounds available)
    pub enforced: Option<Vec<usize>>,
    /// the raw list handed to trim (unsorted, with duplicates)
    pub requested_bounds: Option<Vec<usize>>,
    /// IPA: every bound in 1..=supported is admissible
    pub any_bound: bool,
    /// largest admissible hiding bound (0 = hiding unsupported by this key)
    pub hiding: usize,
    pub num_vars: usize,
    pub desc: Value,
}

impl KeyInfo {
    /// admissible degree bounds for a polynomial of degree `deg`
    pub fn bounds_for(&self, deg: usize) -> Vec<usize> {
        if self.any_bound {
            (deg.max(1)..=self.supported).collect()
        } else {
            self.enforced
                .as_ref()
                .map(|b| b.iter().cloned().filter(|x| *x >= deg).collect())
                .unwrap_or_default()
        }
    }
}

pub struct Keys<S: Scheme> {
    pub pp: Arc<Up<S>>,
    pub ck: Ck<S>,
    pub vk: Vk<S>,
    pub info: KeyInfo,
}

pub struct PolyBuilt<P> {
    pub poly: P,
    pub shape: &'static str,
}

pub trait Scheme: Sized + Send + Sync + 'static {
    const NAME: &'static str;
    const HAS_BOUNDS: bool;
    const HAS_HIDING: bool;
    /// hiding bound may not exceed the degree bound (Sonic's shifted blinding key)
    const HIDING_LE_BOUND: bool = false;
    /// opening-challenge schedule, for the schemes that combine polynomials with sponge challenges
    const SCHEDULE: Option<crate::replay::Schedule> = None;
    type F: PrimeField + Absorb;
    type Pt: Clone + Debug + Ord + Hash + Sync + Send;
    type P: Polynomial<Self::F, Point = Self::Pt> + Clone + Debug + Send + Sync;
    type PC: PolynomialCommitment<Self::F, Self::P>;

    fn keys(k: &KeyRaw, tier: Tier) -> Result<Keys<Self>, String>;
    fn poly(info: &KeyInfo, r: &PolyRaw) -> PolyBuilt<Self::P>;
    fn point(info: &KeyInfo, r: &FRaw) -> Self::Pt;
    /// the constant polynomial `c` in this key's shape
    fn constant(info: &KeyInfo, c: Self::F) -> Self::P;
    /// a uniformly random polynomial with the same size limits as `like`
    fn random_like(info: &KeyInfo, like: &Self::P, seed: u64) -> Self::P;
    fn is_zero_poly(p: &Self::P) -> bool;
    fn point_json(p: &Self::Pt) -> Value;
    /// Code-based schemes only: log2 of the probability that a proof made under one transcript state has
    /// the Fiat-Shamir column positions another state dictates (n_ext^-t for the first opened polynomial).
    fn transcript_collision_log2(_keys: &Keys<Self>, _first: &ark_poly_commit::LabeledCommitment<Comm<Self>>) -> Option<f64> {
        None
    }
    fn proof_bytes(p: &Proof<Self>, compress: bool) -> Vec<u8>;
    fn proof_from_bytes(b: &[u8], compress: bool, validate: bool) -> Result<Proof<Self>, String>;
    /// Code-based schemes only: log2 of the probability (over the Fiat-Shamir column indices) that an
    /// *honest* proof for `polys` opened at the original point passes the column checks when the verifier
    /// is handed `z_new` instead. `None` = the scheme's rejection is deterministic / overwhelming.
    fn moved_point_pass_log2(
        _keys: &Keys<Self>,
        _polys: &[&Self::P],
        _proof: &Proof<Self>,
        _z_new: &Self::Pt,
    ) -> Option<f64> {
        None
    }
    /// Keys well beyond the sizes of the ordinary table (for checks of properties that could fail only
    /// above a size threshold); `which` selects among the scheme's large sizes. Default: the ordinary keys.
    fn keys_large(k: &KeyRaw, tier: Tier, _which: u64) -> Result<Keys<Self>, String> {
        Self::keys(k, tier)
    }
}

// ---------------------------------------------------------------------------------------------
// memo of universal parameters (pure function of the code and the key; lives for one process)
// ---------------------------------------------------------------------------------------------

type MemoMap = Mutex<HashMap<String, Arc<dyn Any + Send + Sync>>>;
static MEMO: OnceLock<MemoMap> = OnceLock::new();

pub fn memo<T: Any + Send + Sync>(
    key: String,
    make: impl FnOnce() -> Result<T, String>,
) -> Result<Arc<T>, String> {
    let m = MEMO.get_or_init(|| Mutex::new(HashMap::new()));
    if let Some(v) = m.lock().unwrap().get(&key) {
        if let Ok(t) = v.clone().downcast::<T>() {
            return Ok(t);
        }
    }
    let v = Arc::new(make()?);
    m.lock().unwrap().insert(key, v.clone());
    Ok(v)
}

pub const UNI_DEGS: [usize; 16] = [1, 2, 3, 4, 5, 7, 8, 9, 15, 16, 17, 31, 32, 33, 63, 64];

fn out_to_res<T>(o: Out<T>, what: &str) -> Result<T, String> {
    o.need(what)
}

// ---------------------------------------------------------------------------------------------
// univariate helpers
// ---------------------------------------------------------------------------------------------

/// Univariate polynomial of degree at most `cap` from the raw choice. Returns (coeffs, shape).
pub fn uni_coeffs<F: PrimeField>(cap: usize, r: &PolyRaw) -> (Vec<F>, &'static str) {
    let mut g = rng(r.seed);
    let nz = |g: &mut rand_chacha::ChaCha20Rng| loop {
        let x = F::rand(g);
        if !x.is_zero() {
            break x;
        }
    };
    let d = pick(r.deg, cap + 1);
    match r.shape {
        0 => (vec![], "zero"),
        1 => (vec![nz(&mut g)], "const"),
        3 if d >= 1 => {
            // low-order coefficients are zero
            let k = 1 + (g.next_u32() as usize) % d;
            let mut c: Vec<F> = (0..=d).map(|_| F::rand(&mut g)).collect();
            for x in c.iter_mut().take(k) {
                *x = F::zero();
            }
            c[d] = nz(&mut g);
            (c, "leading_zero")
        }
        4 if d >= 1 => {
            // explicit high zero coefficients, normalised away by from_coefficients_vec
            let k = 1 + (g.next_u32() as usize) % d;
            let mut c: Vec<F> = (0..=d).map(|_| F::rand(&mut g)).collect();
            for x in c.iter_mut().skip(d + 1 - k) {
                *x = F::zero();
            }
            (c, "trailing_zero")
        }
        5 if d >= 1 => {
            let mut c = vec![F::zero(); d + 1];
            let n = 1 + (g.next_u32() as usize) % 2;
            for _ in 0..n {
                let i = (g.next_u32() as usize) % (d + 1);
                c[i] = nz(&mut g);
            }
            c[d] = nz(&mut g);
            (c, "sparse")
        }
        6 => {
            let mut c: Vec<F> = (0..=cap).map(|_| F::rand(&mut g)).collect();
            c[cap] = nz(&mut g);
            (c, "max_degree")
        }
        7 => {
            let mut c = vec![F::zero(); d + 1];
            c[d] = nz(&mut g);
            (c, "monomial")
        }
        _ => {
            let mut c: Vec<F> = (0..=d).map(|_| F::rand(&mut g)).collect();
            c[d] = nz(&mut g);
            (c, "random")
        }
    }
}

fn uni_key_shape(k: &KeyRaw) -> (usize, usize, Option<Vec<usize>>, usize) {
    let max = UNI_DEGS[pick(k.a, UNI_DEGS.len())];
    let supported = 1 + pick(k.b, max);
    let bounds = k
        .bounds
        .as_ref()
        .map(|v| v.iter().map(|r| 1 + pick(*r, supported)).collect::<Vec<_>>());
    let hmax = max.min(6);
    let hiding = pick((k.hiding as u16) << 8, hmax + 1);
    (max, supported, bounds, hiding)
}

fn sorted_dedup(b: &Option<Vec<usize>>) -> Option<Vec<usize>> {
    b.as_ref().map(|v| {
        let mut v = v.clone();
        v.sort();
        v.dedup();
        v
    })
}

macro_rules! uni_common {
    ($f:ty, $poly:ty) => {
        fn poly(info: &KeyInfo, r: &PolyRaw) -> PolyBuilt<Self::P> {
            let (c, shape) = uni_coeffs::<$f>(info.supported, r);
            PolyBuilt {
                poly: <$poly>::from_coefficients_vec(c),
                shape,
            }
        }
        fn point(_info: &KeyInfo, r: &FRaw) -> Self::Pt {
            r.to_f::<$f>()
        }
        fn constant(_info: &KeyInfo, c: Self::F) -> Self::P {
            <$poly>::from_coefficients_vec(vec![c])
        }
        fn random_like(_info: &KeyInfo, like: &Self::P, seed: u64) -> Self::P {
            let mut g = rng(seed ^ 0x1111);
            let d = like.degree();
            let mut c: Vec<$f> = (0..=d).map(|_| <$f>::rand(&mut g)).collect();
            if c[d].is_zero() {
                c[d] = <$f>::one();
            }
            <$poly>::from_coefficients_vec(c)
        }
        fn is_zero_poly(p: &Self::P) -> bool {
            p.is_zero()
        }
        fn point_json(p: &Self::Pt) -> Value {
            json!(format!("{}", p))
        }
        fn proof_bytes(p: &Proof<Self>, compress: bool) -> Vec<u8> {
            use ark_serialize::CanonicalSerialize;
            let mut v = Vec::new();
            if compress {
                p.serialize_compressed(&mut v).unwrap();
            } else {
                p.serialize_uncompressed(&mut v).unwrap();
            }
            v
        }
        fn proof_from_bytes(b: &[u8], compress: bool, validate: bool) -> Result<Proof<Self>, String> {
            use ark_serialize::{CanonicalDeserialize, Compress, Validate};
            <Proof<Self> as CanonicalDeserialize>::deserialize_with_mode(
                b,
                if compress { Compress::Yes } else { Compress::No },
                if validate { Validate::Yes } else { Validate::No },
            )
            .map_err(|e| format!("{e:?}"))
        }
    };
}

// ---------------------------------------------------------------------------------------------
// Marlin / Sonic
// ---------------------------------------------------------------------------------------------

pub struct Marlin;
pub struct Sonic;

macro_rules! kzg_family {
    ($name:ident, $pc:ty, $label:expr, $hle:expr, $sch:expr) => {
        impl Scheme for $name {
            const NAME: &'static str = $label;
            const HAS_BOUNDS: bool = true;
            const HAS_HIDING: bool = true;
            const HIDING_LE_BOUND: bool = $hle;
            const SCHEDULE: Option<crate::replay::Schedule> = Some($sch);
            type F = Fr;
            type Pt = Fr;
            type P = UniPoly;
            type PC = $pc;

            fn keys(k: &KeyRaw, _tier: Tier) -> Result<Keys<Self>, String> {
                let (max, supported, bounds, hiding) = uni_key_shape(k);
                Self::keys_shaped(k, max, supported, bounds, hiding)
            }
            fn keys_large(k: &KeyRaw, _tier: Tier, which: u64) -> Result<Keys<Self>, String> {
                // around and beyond 256 / 512 powers; supported degree and bounds re-drawn at that size
                let max = IPA_LARGE[(which % IPA_LARGE.len() as u64) as usize];
                let supported = if which & 16 == 0 { max } else { 1 + pick(k.b, max) };
                let bounds = k.bounds.as_ref().map(|v| v.iter().map(|r| 1 + pick(*r, supported)).collect::<Vec<_>>());
                let hiding = pick((k.hiding as u16) << 8, 7);
                Self::keys_shaped(k, max, supported, bounds, hiding)
            }
            uni_common!(Fr, UniPoly);
        }
        impl $name {
            fn keys_shaped(k: &KeyRaw, max: usize, supported: usize, bounds: Option<Vec<usize>>, hiding: usize) -> Result<Keys<Self>, String> {
                let seed = k.seed as u64;
                let pp = memo(format!("{}:{}:{}", $label, max, seed), || {
                    out_to_res(
                        guard(|| <$pc>::setup(max, None, &mut rng(0xa11ce + seed))),
                        "setup",
                    )
                })?;
                let (ck, vk) = out_to_res(
                    guard(|| <$pc>::trim(&pp, supported, hiding, bounds.as_deref())),
                    "trim",
                )?;
                let enforced = sorted_dedup(&bounds);
                let info = KeyInfo {
                    max_degree: max,
                    supported: ck.supported_degree(),
                    enforced: enforced.clone(),
                    requested_bounds: bounds.clone(),
                    any_bound: false,
                    hiding,
                    num_vars: 1,
                    desc: json!({"max_degree": max, "supported": supported, "bounds": bounds, "supported_hiding": hiding, "setup_seed": seed}),
                };
                Ok(Keys { pp, ck, vk, info })
            }
        }
    };
}

kzg_family!(Marlin, MarlinPC, "marlin", false, crate::replay::Schedule::Marlin);
kzg_family!(Sonic, SonicPC, "sonic", true, crate::replay::Schedule::Sonic);

// ---------------------------------------------------------------------------------------------
// IPA
// ---------------------------------------------------------------------------------------------

pub struct Ipa;

impl Scheme for Ipa {
    const NAME: &'static str = "ipa";
    const HAS_BOUNDS: bool = true;
    const HAS_HIDING: bool = true;
    const SCHEDULE: Option<crate::replay::Schedule> = Some(crate::replay::Schedule::Ipa);
    type F = JFr;
    type Pt = JFr;
    type P = JUniPoly;
    type PC = IpaPC;

    fn keys(k: &KeyRaw, _tier: Tier) -> Result<Keys<Self>, String> {
        let max = UNI_DEGS[pick(k.a, UNI_DEGS.len())];
        let sup = 1 + pick(k.b, max);
        // the scheme enforces every bound up to the supported degree and documents the list handed to
        // trim as ignored: hand it one anyway (None, empty or generated bounds within the supported degree)
        let bounds = k.bounds.as_ref().map(|v| v.iter().map(|r| 1 + pick(*r, sup)).collect::<Vec<_>>());
        Self::keys_sized(max, sup, bounds)
    }
    fn keys_large(_k: &KeyRaw, _tier: Tier, which: u64) -> Result<Keys<Self>, String> {
        // 256 and 512 generators and a little beyond; the whole key is supported
        let max = IPA_LARGE[(which % IPA_LARGE.len() as u64) as usize];
        Self::keys_sized(max, max, None)
    }
    uni_common!(JFr, JUniPoly);
}

pub const IPA_LARGE: [usize; 4] = [255, 256, 511, 300];

impl Ipa {
    fn keys_sized(max: usize, supported_req: usize, bounds: Option<Vec<usize>>) -> Result<Keys<Self>, String> {
        let pp = memo(format!("ipa:{}", max), || {
            out_to_res(guard(|| IpaPC::setup(max, None, &mut rng(1))), "setup")
        })?;
        let (ck, vk) = out_to_res(
            guard(|| IpaPC::trim(&pp, supported_req, 0, bounds.as_deref())),
            "trim",
        )?;
        let supported = ck.supported_degree();
        let info = KeyInfo {
            max_degree: max,
            supported,
            enforced: None,
            requested_bounds: None,
            any_bound: true,
            hiding: 4,
            num_vars: 1,
            desc: json!({"max_degree_requested": max, "supported_requested": supported_req, "supported_reported": supported, "bounds_handed_to_trim": bounds}),
        };
        Ok(Keys { pp, ck, vk, info })
    }
}

// ---------------------------------------------------------------------------------------------
// PST13
// ---------------------------------------------------------------------------------------------

pub struct Pst13;

/// all exponent vectors in `n` variables of total degree <= d (the harness's own enumeration)
pub fn all_exponents(n: usize, d: usize) -> Vec<Vec<usize>> {
    fn rec(i: usize, n: usize, left: usize, cur: &mut Vec<usize>, out: &mut Vec<Vec<usize>>) {
        if i == n {
            out.push(cur.clone());
            return;
        }
        for e in 0..=left {
            cur.push(e);
            rec(i + 1, n, left - e, cur, out);
            cur.pop();
        }
    }
    let mut out = Vec::new();
    rec(0, n, d, &mut Vec::new(), &mut out);
    out
}

pub fn term_of(exps: &[usize]) -> SparseTerm {
    SparseTerm::new(
        exps.iter()
            .enumerate()
            .filter(|(_, e)| **e > 0)
            .map(|(i, e)| (i, *e))
            .collect(),
    )
}

pub fn pst_dims(k: &KeyRaw, tier: Tier) -> (usize, usize, usize) {
    let (nvmax, dmax) = if tier.is_quick() { (4, 4) } else { (6, 6) };
    let nv = 1 + pick(k.a, nvmax);
    let mut max = 1 + pick(k.b, dmax);
    if !tier.is_quick() && nv + max > 10 {
        // keep the largest thorough keys at C(10,5)=252 elements outside the exhaustive C15 grid
        max = 10 - nv;
    }
    let supported = 1 + pick(k.c, max);
    (nv, max, supported)
}

impl Scheme for Pst13 {
    const NAME: &'static str = "pst13";
    const HAS_BOUNDS: bool = false;
    const HAS_HIDING: bool = true;
    const SCHEDULE: Option<crate::replay::Schedule> = Some(crate::replay::Schedule::Marlin);
    type F = Fr;
    type Pt = Vec<Fr>;
    type P = MVPoly;
    type PC = Pst13PC;

    fn keys(k: &KeyRaw, tier: Tier) -> Result<Keys<Self>, String> {
        let (nv, max, supported) = pst_dims(k, tier);
        let seed = k.seed as u64;
        let pp = memo(format!("pst13:{}:{}:{}", nv, max, seed), || {
            out_to_res(
                guard(|| Pst13PC::setup(max, Some(nv), &mut rng(0xb0b + seed))),
                "setup",
            )
        })?;
        let (ck, vk) = out_to_res(guard(|| Pst13PC::trim(&pp, supported, 0, None)), "trim")?;
        let info = KeyInfo {
            max_degree: max,
            supported,
            enforced: None,
            requested_bounds: None,
            any_bound: false,
            hiding: supported,
            num_vars: nv,
            desc: json!({"num_vars": nv, "max_degree": max, "supported": supported, "setup_seed": seed}),
        };
        Ok(Keys { pp, ck, vk, info })
    }

    fn poly(info: &KeyInfo, r: &PolyRaw) -> PolyBuilt<Self::P> {
        let n = info.num_vars;
        let dmax = info.supported;
        let mut g = rng(r.seed);
        let nz = |g: &mut rand_chacha::ChaCha20Rng| loop {
            let x = Fr::rand(g);
            if !x.is_zero() {
                break x;
            }
        };
        let d = pick(r.deg, dmax + 1);
        let (terms, shape): (Vec<(Fr, SparseTerm)>, &'static str) = match r.shape {
            0 => (vec![], "zero"),
            1 => (vec![(nz(&mut g), SparseTerm::new(vec![]))], "const"),
            7 | 3 if n >= 2 && dmax >= 2 => {
                // one genuinely mixed monomial
                let all: Vec<_> = all_exponents(n, dmax)
                    .into_iter()
                    .filter(|e| e.iter().filter(|x| **x > 0).count() >= 2)
                    .collect();
                let e = &all[(g.next_u32() as usize) % all.len()];
                (vec![(nz(&mut g), term_of(e))], "mixed_monomial")
            }
            4 | 6 => {
                // dense over all monomials of total degree <= d (6: <= supported)
                let dd = if r.shape == 6 { dmax } else { d.max(1) };
                let t = all_exponents(n, dd)
                    .iter()
                    .map(|e| (nz(&mut g), term_of(e)))
                    .collect();
                (t, "dense_all_monomials")
            }
            5 => {
                // the repository's shape: sum of univariate polynomials
                let p = <MVPoly as DenseMVPolynomial<Fr>>::rand(d.max(1), n, &mut g);
                return PolyBuilt {
                    poly: p,
                    shape: "sum_of_univariates",
                };
            }
            _ => {
                // random subset of all monomials of total degree <= d
                let all = all_exponents(n, d.max(1));
                let mut t = Vec::new();
                for e in &all {
                    if g.next_u32() % 3 == 0 {
                        t.push((nz(&mut g), term_of(e)));
                    }
                }
                if t.is_empty() {
                    let e = &all[(g.next_u32() as usize) % all.len()];
                    t.push((nz(&mut g), term_of(e)));
                }
                (t, "random_subset")
            }
        };
        PolyBuilt {
            poly: MVPoly::from_coefficients_vec(n, terms),
            shape,
        }
    }
    fn point(info: &KeyInfo, r: &FRaw) -> Self::Pt {
        r.to_vec::<Fr>(info.num_vars)
    }
    fn constant(info: &KeyInfo, c: Self::F) -> Self::P {
        MVPoly::from_coefficients_vec(info.num_vars, vec![(c, SparseTerm::new(vec![]))])
    }
    fn random_like(info: &KeyInfo, like: &Self::P, seed: u64) -> Self::P {
        let mut g = rng(seed ^ 0x2222);
        let d = like.degree().max(1).min(info.supported);
        let t = all_exponents(info.num_vars, d)
            .iter()
            .map(|e| (Fr::rand(&mut g), term_of(e)))
            .collect();
        MVPoly::from_coefficients_vec(info.num_vars, t)
    }
    fn is_zero_poly(p: &Self::P) -> bool {
        p.is_zero()
    }
    fn point_json(p: &Self::Pt) -> Value {
        json!(p.iter().map(|x| format!("{}", x)).collect::<Vec<_>>())
    }
    fn proof_bytes(p: &Proof<Self>, compress: bool) -> Vec<u8> {
        use ark_serialize::CanonicalSerialize;
        let mut v = Vec::new();
        if compress {
            p.serialize_compressed(&mut v).unwrap();
        } else {
            p.serialize_uncompressed(&mut v).unwrap();
        }
        v
    }
    fn proof_from_bytes(b: &[u8], compress: bool, validate: bool) -> Result<Proof<Self>, String> {
        use ark_serialize::{CanonicalDeserialize, Compress, Validate};
        <Proof<Self> as CanonicalDeserialize>::deserialize_with_mode(
            b,
            if compress { Compress::Yes } else { Compress::No },
            if validate { Validate::Yes } else { Validate::No },
        )
        .map_err(|e| format!("{e:?}"))
    }
}

// ---------------------------------------------------------------------------------------------
// multilinear helpers
// ---------------------------------------------------------------------------------------------

pub fn mle_from_raw(nv: usize, r: &PolyRaw) -> PolyBuilt<MLE> {
    let mut g = rng(r.seed);
    let n = 1usize << nv;
    let (evals, shape): (Vec<Fr>, &'static str) = match r.shape {
        0 => (vec![Fr::zero(); n], "zero"),
        1 => {
            let c = Fr::rand(&mut g);
            (vec![c; n], "const")
        }
        7 | 3 => {
            let mut v = vec![Fr::zero(); n];
            v[(g.next_u64() as usize) % n] = Fr::rand(&mut g);
            (v, "one_hot")
        }
        5 | 4 => {
            let mut v = vec![Fr::zero(); n];
            for _ in 0..(1 + n / 8) {
                v[(g.next_u64() as usize) % n] = Fr::rand(&mut g);
            }
            (v, "sparse")
        }
        _ => ((0..n).map(|_| Fr::rand(&mut g)).collect(), "random"),
    };
    PolyBuilt {
        poly: MLE::from_evaluations_vec(nv, evals),
        shape,
    }
}

macro_rules! mle_common {
    () => {
        fn poly(info: &KeyInfo, r: &PolyRaw) -> PolyBuilt<Self::P> {
            mle_from_raw(info.num_vars, r)
        }
        fn point(info: &KeyInfo, r: &FRaw) -> Self::Pt {
            r.to_vec::<Fr>(info.num_vars)
        }
        fn constant(info: &KeyInfo, c: Self::F) -> Self::P {
            MLE::from_evaluations_vec(info.num_vars, vec![c; 1 << info.num_vars])
        }
        fn random_like(info: &KeyInfo, _like: &Self::P, seed: u64) -> Self::P {
            let mut g = rng(seed ^ 0x3333);
            MLE::from_evaluations_vec(
                info.num_vars,
                (0..(1usize << info.num_vars))
                    .map(|_| Fr::rand(&mut g))
                    .collect(),
            )
        }
        fn is_zero_poly(p: &Self::P) -> bool {
            p.evaluations.iter().all(|x| x.is_zero())
        }
        fn point_json(p: &Self::Pt) -> Value {
            json!(p.iter().map(|x| format!("{}", x)).collect::<Vec<_>>())
        }
        fn proof_bytes(p: &Proof<Self>, compress: bool) -> Vec<u8> {
            use ark_serialize::CanonicalSerialize;
            let mut v = Vec::new();
            if compress {
                p.serialize_compressed(&mut v).unwrap();
            } else {
                p.serialize_uncompressed(&mut v).unwrap();
            }
            v
        }
        fn proof_from_bytes(b: &[u8], compress: bool, validate: bool) -> Result<Proof<Self>, String> {
            use ark_serialize::{CanonicalDeserialize, Compress, Validate};
            <Proof<Self> as CanonicalDeserialize>::deserialize_with_mode(
                b,
                if compress { Compress::Yes } else { Compress::No },
                if validate { Validate::Yes } else { Validate::No },
            )
            .map_err(|e| format!("{e:?}"))
        }
    };
}

// ---------------------------------------------------------------------------------------------
// Hyrax
// ---------------------------------------------------------------------------------------------

pub struct Hyrax;

impl Scheme for Hyrax {
    const NAME: &'static str = "hyrax";
    const HAS_BOUNDS: bool = false;
    const HAS_HIDING: bool = false;
    type F = Fr;
    type Pt = Vec<Fr>;
    type P = MLE;
    type PC = HyraxPCT;

    fn keys(k: &KeyRaw, tier: Tier) -> Result<Keys<Self>, String> {
        let choices = 7; // up to 12 variables in both tiers (64 x 64 matrices; block-wise code paths start there)
        let nv = 2 * pick(k.a, choices);
        let pp = memo(format!("hyrax:{}", nv), || {
            out_to_res(guard(|| HyraxPCT::setup(1, Some(nv), &mut rng(1))), "setup")
        })?;
        let (ck, vk) = out_to_res(guard(|| HyraxPCT::trim(&pp, 1, 1, None)), "trim")?;
        let info = KeyInfo {
            max_degree: 1,
            supported: 1,
            enforced: None,
            requested_bounds: None,
            any_bound: false,
            hiding: 0,
            num_vars: nv,
            desc: json!({"num_vars": nv}),
        };
        Ok(Keys { pp, ck, vk, info })
    }
    mle_common!();
}

// ---------------------------------------------------------------------------------------------
// Ligero / Brakedown
// ---------------------------------------------------------------------------------------------

pub const SEC_PARAMS: [usize; 6] = [128, 16, 40, 64, 80, 100];
pub const RHO_INVS: [usize; 3] = [2, 4, 8];

/// (use the scheme's own default setup?, sec_param, rho_inv, well-formedness)
pub fn ligero_choice(c: u16) -> (bool, usize, usize, bool) {
    let v = pick(c, 1 + SEC_PARAMS.len() * RHO_INVS.len() * 2);
    if v == 0 {
        return (true, 128, 0, true);
    }
    let v = v - 1;
    let wf = v % 2 == 0;
    let v = v / 2;
    (
        false,
        SEC_PARAMS[v % SEC_PARAMS.len()],
        RHO_INVS[v / SEC_PARAMS.len()],
        wf,
    )
}

pub struct MLigero;

impl Scheme for MLigero {
    const NAME: &'static str = "mligero";
    const HAS_BOUNDS: bool = false;
    const HAS_HIDING: bool = false;
    type F = Fr;
    type Pt = Vec<Fr>;
    type P = MLE;
    type PC = MLigeroPC;

    fn keys(k: &KeyRaw, tier: Tier) -> Result<Keys<Self>, String> {
        let nv = 1 + pick(k.a, if tier.is_quick() { 10 } else { 12 });
        let (dflt, sec, rho_inv, wf) = ligero_choice(k.c);
        let pp: LigeroParams = if dflt {
            out_to_res(guard(|| MLigeroPC::setup(1, Some(nv), &mut rng(1))), "setup")?
        } else {
            LigeroParams::new(sec, rho_inv, wf, (), (), ())
        };
        let (ck, vk) = out_to_res(guard(|| MLigeroPC::trim(&pp, 0, 0, None)), "trim")?;
        let info = KeyInfo {
            max_degree: 1,
            supported: 1,
            enforced: None,
            requested_bounds: None,
            any_bound: false,
            hiding: 0,
            num_vars: nv,
            desc: json!({"num_vars": nv, "default_setup": dflt, "sec_param": sec, "rho_inv": if dflt {2} else {rho_inv}, "well_formedness": wf}),
        };
        Ok(Keys {
            pp: Arc::new(pp),
            ck,
            vk,
            info,
        })
    }
    mle_common!();
    fn moved_point_pass_log2(
        keys: &Keys<Self>,
        polys: &[&Self::P],
        proof: &Proof<Self>,
        z_new: &Self::Pt,
    ) -> Option<f64> {
        crate::lincode::moved_point_pass_log2::<Self>(keys, polys, proof, z_new)
    }
    fn transcript_collision_log2(keys: &Keys<Self>, first: &ark_poly_commit::LabeledCommitment<Comm<Self>>) -> Option<f64> {
        crate::lincode::transcript_collision_log2::<Self>(keys, first)
    }
}

pub struct Brakedown;

impl Scheme for Brakedown {
    const NAME: &'static str = "brakedown";
    const HAS_BOUNDS: bool = false;
    const HAS_HIDING: bool = false;
    type F = Fr;
    type Pt = Vec<Fr>;
    type P = MLE;
    type PC = BrakedownPC;

    fn keys(k: &KeyRaw, tier: Tier) -> Result<Keys<Self>, String> {
        let nv = 1 + pick(k.a, if tier.is_quick() { 10 } else { 12 });
        let wf = k.c % 2 == 0;
        let seed = k.seed as u64;
        let pp: Arc<BrakedownParams> = memo(format!("brakedown:{}:{}:{}", nv, wf, seed), || {
            if wf {
                out_to_res(
                    guard(|| BrakedownPC::setup(1, Some(nv), &mut rng(0xbd + seed))),
                    "setup",
                )
            } else {
                out_to_res(
                    crate::util::guard_plain(|| {
                        BrakedownParams::default(&mut rng(0xbd + seed), 1 << nv, false, (), (), ())
                    })
                    .map_plain(),
                    "setup",
                )
            }
        })?;
        let (ck, vk) = out_to_res(guard(|| BrakedownPC::trim(&pp, 0, 0, None)), "trim")?;
        let info = KeyInfo {
            max_degree: 1,
            supported: 1,
            enforced: None,
            requested_bounds: None,
            any_bound: false,
            hiding: 0,
            num_vars: nv,
            desc: json!({"num_vars": nv, "well_formedness": wf, "setup_seed": seed}),
        };
        Ok(Keys { pp, ck, vk, info })
    }
    mle_common!();
    fn moved_point_pass_log2(
        keys: &Keys<Self>,
        polys: &[&Self::P],
        proof: &Proof<Self>,
        z_new: &Self::Pt,
    ) -> Option<f64> {
        crate::lincode::moved_point_pass_log2::<Self>(keys, polys, proof, z_new)
    }
    fn transcript_collision_log2(keys: &Keys<Self>, first: &ark_poly_commit::LabeledCommitment<Comm<Self>>) -> Option<f64> {
        crate::lincode::transcript_collision_log2::<Self>(keys, first)
    }
}

impl<T> Out<T> {
    /// identity helper so guard_plain results flow through the same `need` path
    pub fn map_plain(self) -> Out<T> {
        self
    }
}

pub struct ULigero;

pub const ULIGERO_CAPS_QUICK: [usize; 10] = [1, 2, 3, 5, 8, 16, 31, 64, 100, 300];
pub const ULIGERO_CAPS_THOROUGH: [usize; 13] =
    [1, 2, 3, 5, 8, 16, 31, 64, 100, 300, 1000, 2047, 4096];

impl Scheme for ULigero {
    const NAME: &'static str = "uligero";
    const HAS_BOUNDS: bool = false;
    const HAS_HIDING: bool = false;
    type F = Fr;
    type Pt = Fr;
    type P = UniPoly;
    type PC = ULigeroPC;

    fn keys(k: &KeyRaw, tier: Tier) -> Result<Keys<Self>, String> {
        let cap = if tier.is_quick() {
            ULIGERO_CAPS_QUICK[pick(k.a, ULIGERO_CAPS_QUICK.len())]
        } else {
            ULIGERO_CAPS_THOROUGH[pick(k.a, ULIGERO_CAPS_THOROUGH.len())]
        };
        let (dflt, sec, rho_inv, wf) = ligero_choice(k.c);
        let pp: LigeroParams = if dflt {
            out_to_res(guard(|| ULigeroPC::setup(cap, None, &mut rng(1))), "setup")?
        } else {
            LigeroParams::new(sec, rho_inv, wf, (), (), ())
        };
        let (ck, vk) = out_to_res(guard(|| ULigeroPC::trim(&pp, 0, 0, None)), "trim")?;
        let info = KeyInfo {
            max_degree: cap,
            supported: cap,
            enforced: None,
            requested_bounds: None,
            any_bound: false,
            hiding: 0,
            num_vars: 1,
            desc: json!({"degree_cap": cap, "default_setup": dflt, "sec_param": sec, "rho_inv": if dflt {4} else {rho_inv}, "well_formedness": wf}),
        };
        Ok(Keys {
            pp: Arc::new(pp),
            ck,
            vk,
            info,
        })
    }
    uni_common!(Fr, UniPoly);
    fn moved_point_pass_log2(
        keys: &Keys<Self>,
        polys: &[&Self::P],
        proof: &Proof<Self>,
        z_new: &Self::Pt,
    ) -> Option<f64> {
        crate::lincode::moved_point_pass_log2::<Self>(keys, polys, proof, z_new)
    }
    fn transcript_collision_log2(keys: &Keys<Self>, first: &ark_poly_commit::LabeledCommitment<Comm<Self>>) -> Option<f64> {
        crate::lincode::transcript_collision_log2::<Self>(keys, first)
    }
}

/// Evaluate with a second, independent method where one exists (Horner for univariate polynomials).
pub fn horner<F: Field>(coeffs: &[F], z: F) -> F {
    coeffs.iter().rev().fold(F::zero(), |acc, c| acc * z + c)
}
