#![allow(dead_code, unused_imports, unused_variables, clippy::all)]
use pcverif::{engine, props, util};

use pcverif::engine::Tier;

fn usage() -> ! {
    eprintln!("usage: pcverif run <ID> <quick|thorough> | pcverif replay <file> | pcverif list");
    std::process::exit(2)
}

fn main() {
    util::silence_panics();
    let args: Vec<String> = std::env::args().collect();
    if args.len() < 2 {
        usage();
    }
    let seed: u64 = std::env::var("VERIF_SEED")
        .ok()
        .and_then(|s| s.trim().parse::<u64>().ok())
        .unwrap_or(1);
    let code = match args[1].as_str() {
        "run" => {
            if args.len() < 4 {
                usage();
            }
            let tier = match args[3].as_str() {
                "quick" => Tier::Quick,
                "thorough" => Tier::Thorough,
                _ => usage(),
            };
            match props::spec(&args[2]) {
                Some(spec) => engine::run_property(spec, tier, seed),
                None => {
                    eprintln!("unknown property {}", args[2]);
                    2
                }
            }
        }
        "replay" => {
            if args.len() < 3 {
                usage();
            }
            engine::replay_file(&args[2], |id| props::spec(id))
        }
        "digest" => {
            if args.len() < 5 {
                usage();
            }
            props::c18::digest_main(&args[2], &args[3], &args[4])
        }
        "list" => {
            for p in props::ALL {
                println!("{p}");
            }
            0
        }
        _ => usage(),
    };
    std::process::exit(code);
}
