#![allow(dead_code, unused_imports, unused_variables, clippy::all)]
pub mod attacks;
pub mod engine;
pub mod lincode;
pub mod model;
pub mod oracle;
pub mod props;
pub mod refv;
pub mod replay;
pub mod schemes;
pub mod session;
pub mod types;
pub mod util;
