//! Reference verifiers: independent implementations of each scheme's published verification relation
//! on top of arkworks group / pairing / hash primitives, with the harness's own challenge derivation.
//! Also: enumeration and replacement of every verifier-visible component of a transcript.

use crate::lincode::{self, MComm, MProof};
use crate::replay::{challenges, Schedule};
use crate::schemes::*;
use crate::types::*;
use crate::util::{rng, ser, ser_unc};
use ark_crypto_primitives::sponge::{poseidon::PoseidonSponge, CryptographicSponge};
use ark_ec::{pairing::Pairing, AffineRepr, CurveGroup};
use ark_ff::{Field, One, PrimeField, UniformRand, Zero};
use ark_poly_commit::LabeledCommitment;
use blake2::Blake2s256;
use digest::Digest;

/// A single-point verification transcript of a trait scheme.
pub struct Tr<S: Scheme> {
    pub vk: Vk<S>,
    pub comms: Vec<LabeledCommitment<Comm<S>>>,
    pub point: S::Pt,
    pub values: Vec<S::F>,
    pub proof: Proof<S>,
}

impl<S: Scheme> Clone for Tr<S> {
    fn clone(&self) -> Self {
        Tr { vk: self.vk.clone(), comms: self.comms.clone(), point: self.point.clone(), values: self.values.clone(), proof: self.proof.clone() }
    }
}

pub trait RefV: Scheme {
    /// names of the replaceable components of this transcript (one entry per component)
    fn components(t: &Tr<Self>) -> Vec<String>;
    /// replace component `k` by another valid element of the same type
    fn replace(t: &mut Tr<Self>, k: usize, seed: u64);
    /// the published relation, evaluated independently; advances the sponge as the scheme's transcript does
    fn reference(t: &Tr<Self>, sp: &mut PoseidonSponge<Self::F>) -> bool;
}

fn rg1(seed: u64) -> G1A {
    G1::rand(&mut rng(seed)).into_affine()
}
fn rg2(seed: u64) -> G2A {
    G2::rand(&mut rng(seed)).into_affine()
}
fn rfr(seed: u64) -> Fr {
    Fr::rand(&mut rng(seed))
}


/// a degree bound different from `cur`: another enforced one, or (every other time) one the key was not
/// trimmed for - a neighbour of an enforced bound or a small random value
fn other_bound(cur: Option<usize>, enforced: &[usize], seed: u64) -> Option<usize> {
    let others: Vec<usize> = enforced.iter().cloned().filter(|x| Some(*x) != cur).collect();
    let top = enforced.iter().cloned().max().unwrap_or(4) + 2;
    let mut foreign: Vec<usize> = (0..=top).filter(|x| !enforced.contains(x) && Some(*x) != cur).collect();
    if (seed >> 13) % 4 == 0 {
        // well beyond every enforced bound
        foreign = vec![top + 7, 2 * top + 1, usize::MAX];
    }
    if (seed >> 7) % 2 == 0 && !foreign.is_empty() {
        // prefer values just below an enforced bound
        let near: Vec<usize> = foreign.iter().cloned().filter(|x| x.checked_add(1).map(|y| enforced.contains(&y)).unwrap_or(false) || x.checked_add(2).map(|y| enforced.contains(&y)).unwrap_or(false)).collect();
        let pool = if !near.is_empty() && (seed >> 9) % 3 != 0 { near } else { foreign };
        return Some(pool[((seed >> 11) % pool.len() as u64) as usize]);
    }
    if others.is_empty() {
        return cur;
    }
    Some(others[(seed % others.len() as u64) as usize])
}

fn relabel<C: ark_poly_commit::PCCommitment>(c: &LabeledCommitment<C>, comm: C, bound: Option<usize>) -> LabeledCommitment<C> {
    LabeledCommitment::new(c.label().clone(), comm, bound)
}

// ------------------------------------------------------------------------------------------------
// Marlin
// ------------------------------------------------------------------------------------------------

impl RefV for Marlin {
    fn components(t: &Tr<Self>) -> Vec<String> {
        let mut v = Vec::new();
        for (j, c) in t.comms.iter().enumerate() {
            v.push(format!("commitment[{j}].comm"));
            if c.commitment().shifted_comm.is_some() {
                v.push(format!("commitment[{j}].shifted_comm"));
                v.push(format!("commitment[{j}].degree_bound"));
            }
            v.push(format!("value[{j}]"));
        }
        v.extend(["point", "proof.w", "proof.random_v", "vk.g", "vk.gamma_g", "vk.h", "vk.beta_h"].iter().map(|s| s.to_string()));
        if let Some(sp) = &t.vk.degree_bounds_and_shift_powers {
            for i in 0..sp.len() {
                v.push(format!("vk.shift_power[{i}]"));
            }
        }
        v
    }
    fn replace(t: &mut Tr<Self>, k: usize, seed: u64) {
        let name = Self::components(t)[k].clone();
        let idx = |s: &str| -> usize { s[s.find('[').unwrap() + 1..s.find(']').unwrap()].parse().unwrap() };
        if name.starts_with("commitment[") {
            let j = idx(&name);
            let mut c = *t.comms[j].commitment();
            let mut b = t.comms[j].degree_bound();
            if name.ends_with(".comm") {
                c.comm.0 = rg1(seed);
            } else if name.ends_with(".shifted_comm") {
                c.shifted_comm = Some(ark_poly_commit::kzg10::Commitment(rg1(seed)));
            } else {
                // another enforced bound, or one the key was not trimmed for
                let enforced: Vec<usize> = t.vk.degree_bounds_and_shift_powers.as_ref().map(|v| v.iter().map(|x| x.0).collect()).unwrap_or_default();
                b = other_bound(b, &enforced, seed);
            }
            t.comms[j] = relabel(&t.comms[j], c, b);
        } else if name.starts_with("value[") {
            let j = idx(&name);
            t.values[j] = rfr(seed);
        } else if name.starts_with("vk.shift_power[") {
            let i = idx(&name);
            t.vk.degree_bounds_and_shift_powers.as_mut().unwrap()[i].1 = rg1(seed);
        } else {
            match name.as_str() {
                "point" => t.point = rfr(seed),
                "proof.w" => t.proof.w = rg1(seed),
                "proof.random_v" => t.proof.random_v = Some(rfr(seed)),
                "vk.g" => t.vk.vk.g = rg1(seed),
                "vk.gamma_g" => t.vk.vk.gamma_g = rg1(seed),
                "vk.h" => {
                    t.vk.vk.h = rg2(seed);
                    t.vk.vk.prepared_h = t.vk.vk.h.into();
                }
                _ => {
                    t.vk.vk.beta_h = rg2(seed);
                    t.vk.vk.prepared_beta_h = t.vk.vk.beta_h.into();
                }
            }
        }
    }
    fn reference(t: &Tr<Self>, sp: &mut PoseidonSponge<Fr>) -> bool {
        if t.comms.len() != t.values.len() {
            return false;
        }
        let hb: Vec<bool> = t.comms.iter().map(|c| c.degree_bound().is_some()).collect();
        let ch = challenges(Schedule::Marlin, &hb, sp);
        let vk = &t.vk.vk;
        let mut c_acc = G1::zero();
        let mut v_acc = Fr::zero();
        for (j, c) in t.comms.iter().enumerate() {
            let cm = c.commitment();
            if c.degree_bound().is_some() != cm.shifted_comm.is_some() {
                return false; // not a transcript of the right shape
            }
            c_acc += cm.comm.0 * ch[j].0;
            v_acc += ch[j].0 * t.values[j];
            if let Some(b) = c.degree_bound() {
                let Some(shift) = t.vk.degree_bounds_and_shift_powers.as_ref().and_then(|v| v.iter().find(|x| x.0 == b).map(|x| x.1)) else {
                    return false;
                };
                c_acc += (cm.shifted_comm.unwrap().0.into_group() - shift * t.values[j]) * ch[j].1.unwrap();
            }
        }
        let mut inner = c_acc - vk.g * v_acc;
        if let Some(rv) = t.proof.random_v {
            inner -= vk.gamma_g * rv;
        }
        E::pairing(inner, vk.h) == E::pairing(t.proof.w, vk.beta_h.into_group() - vk.h * t.point)
    }
}

// ------------------------------------------------------------------------------------------------
// Sonic
// ------------------------------------------------------------------------------------------------

impl RefV for Sonic {
    fn components(t: &Tr<Self>) -> Vec<String> {
        let mut v = Vec::new();
        for (j, c) in t.comms.iter().enumerate() {
            v.push(format!("commitment[{j}]"));
            if c.degree_bound().is_some() {
                v.push(format!("degree_bound[{j}]"));
            }
            v.push(format!("value[{j}]"));
        }
        v.extend(["point", "proof.w", "proof.random_v", "vk.g", "vk.gamma_g", "vk.h", "vk.beta_h"].iter().map(|s| s.to_string()));
        if let Some(sp) = &t.vk.degree_bounds_and_neg_powers_of_h {
            for i in 0..sp.len() {
                v.push(format!("vk.neg_power_of_h[{i}]"));
            }
        }
        v
    }
    fn replace(t: &mut Tr<Self>, k: usize, seed: u64) {
        let name = Self::components(t)[k].clone();
        let idx = |s: &str| -> usize { s[s.find('[').unwrap() + 1..s.find(']').unwrap()].parse().unwrap() };
        if name.starts_with("commitment[") {
            let j = idx(&name);
            t.comms[j] = relabel(&t.comms[j], ark_poly_commit::kzg10::Commitment(rg1(seed)), t.comms[j].degree_bound());
        } else if name.starts_with("degree_bound[") {
            let j = idx(&name);
            let b = t.comms[j].degree_bound();
            let enforced: Vec<usize> = t.vk.degree_bounds_and_neg_powers_of_h.as_ref().map(|v| v.iter().map(|x| x.0).collect()).unwrap_or_default();
            let nb = other_bound(b, &enforced, seed);
            t.comms[j] = relabel(&t.comms[j], *t.comms[j].commitment(), nb);
        } else if name.starts_with("value[") {
            t.values[idx(&name)] = rfr(seed);
        } else if name.starts_with("vk.neg_power_of_h[") {
            t.vk.degree_bounds_and_neg_powers_of_h.as_mut().unwrap()[idx(&name)].1 = rg2(seed);
        } else {
            match name.as_str() {
                "point" => t.point = rfr(seed),
                "proof.w" => t.proof.w = rg1(seed),
                "proof.random_v" => t.proof.random_v = Some(rfr(seed)),
                "vk.g" => t.vk.g = rg1(seed),
                "vk.gamma_g" => t.vk.gamma_g = rg1(seed),
                "vk.h" => {
                    t.vk.h = rg2(seed);
                    t.vk.prepared_h = t.vk.h.into();
                }
                _ => {
                    t.vk.beta_h = rg2(seed);
                    t.vk.prepared_beta_h = t.vk.beta_h.into();
                }
            }
        }
    }
    fn reference(t: &Tr<Self>, sp: &mut PoseidonSponge<Fr>) -> bool {
        if t.comms.len() != t.values.len() {
            return false;
        }
        let hb: Vec<bool> = t.comms.iter().map(|c| c.degree_bound().is_some()).collect();
        let ch = challenges(Schedule::Sonic, &hb, sp);
        let vk = &t.vk;
        // prod_b e(C_b, shift_b) * e(-(v G - z W + rv gamma G), H) * e(-W, beta H) == 1
        let mut by_bound: std::collections::BTreeMap<Option<usize>, G1> = Default::default();
        let mut v_acc = Fr::zero();
        for (j, c) in t.comms.iter().enumerate() {
            *by_bound.entry(c.degree_bound()).or_insert(G1::zero()) += c.commitment().0 * ch[j].0;
            v_acc += ch[j].0 * t.values[j];
        }
        let mut acc = <E as Pairing>::TargetField::one();
        for (b, c) in by_bound {
            let g2 = match b {
                None => vk.h,
                Some(b) => match vk.degree_bounds_and_neg_powers_of_h.as_ref().and_then(|v| v.iter().find(|x| x.0 == b).map(|x| x.1)) {
                    Some(x) => x,
                    None => return false,
                },
            };
            acc *= E::pairing(c, g2).0;
        }
        let mut a = vk.g * v_acc - t.proof.w * t.point;
        if let Some(rv) = t.proof.random_v {
            a += vk.gamma_g * rv;
        }
        acc *= E::pairing(-a, vk.h).0;
        acc *= E::pairing(-t.proof.w.into_group(), vk.beta_h).0;
        acc.is_one()
    }
}

// ------------------------------------------------------------------------------------------------
// PST13
// ------------------------------------------------------------------------------------------------

impl RefV for Pst13 {
    fn components(t: &Tr<Self>) -> Vec<String> {
        let mut v = Vec::new();
        for j in 0..t.comms.len() {
            v.push(format!("commitment[{j}]"));
            v.push(format!("value[{j}]"));
        }
        for i in 0..t.point.len() {
            v.push(format!("point[{i}]"));
        }
        for i in 0..t.proof.w.len() {
            v.push(format!("proof.w[{i}]"));
        }
        v.extend(["proof.random_v", "vk.g", "vk.gamma_g", "vk.h"].iter().map(|s| s.to_string()));
        for i in 0..t.vk.beta_h.len() {
            v.push(format!("vk.beta_h[{i}]"));
        }
        v
    }
    fn replace(t: &mut Tr<Self>, k: usize, seed: u64) {
        let name = Self::components(t)[k].clone();
        let idx = |s: &str| -> usize { s[s.find('[').unwrap() + 1..s.find(']').unwrap()].parse().unwrap() };
        if name.starts_with("commitment[") {
            let j = idx(&name);
            let mut c = *t.comms[j].commitment();
            c.comm.0 = rg1(seed);
            t.comms[j] = relabel(&t.comms[j], c, None);
        } else if name.starts_with("value[") {
            t.values[idx(&name)] = rfr(seed);
        } else if name.starts_with("point[") {
            t.point[idx(&name)] = rfr(seed);
        } else if name.starts_with("proof.w[") {
            t.proof.w[idx(&name)] = rg1(seed);
        } else if name.starts_with("vk.beta_h[") {
            let i = idx(&name);
            t.vk.beta_h[i] = rg2(seed);
            t.vk.prepared_beta_h[i] = t.vk.beta_h[i].into();
        } else {
            match name.as_str() {
                "proof.random_v" => t.proof.random_v = Some(rfr(seed)),
                "vk.g" => t.vk.g = rg1(seed),
                "vk.gamma_g" => t.vk.gamma_g = rg1(seed),
                _ => {
                    t.vk.h = rg2(seed);
                    t.vk.prepared_h = t.vk.h.into();
                }
            }
        }
    }
    fn reference(t: &Tr<Self>, sp: &mut PoseidonSponge<Fr>) -> bool {
        if t.comms.len() != t.values.len() || t.proof.w.len() != t.vk.num_vars || t.point.len() != t.vk.num_vars {
            return false;
        }
        let hb = vec![false; t.comms.len()];
        let ch = challenges(Schedule::Marlin, &hb, sp);
        let mut c_acc = G1::zero();
        let mut v_acc = Fr::zero();
        for (j, c) in t.comms.iter().enumerate() {
            if c.degree_bound().is_some() || c.commitment().shifted_comm.is_some() {
                return false;
            }
            c_acc += c.commitment().comm.0 * ch[j].0;
            v_acc += ch[j].0 * t.values[j];
        }
        let mut inner = c_acc - t.vk.g * v_acc;
        if let Some(rv) = t.proof.random_v {
            inner -= t.vk.gamma_g * rv;
        }
        let lhs = E::pairing(inner, t.vk.h);
        let mut rhs = <E as Pairing>::TargetField::one();
        for i in 0..t.vk.num_vars {
            rhs *= E::pairing(t.proof.w[i], t.vk.beta_h[i].into_group() - t.vk.h * t.point[i]).0;
        }
        lhs.0 == rhs
    }
}

// ------------------------------------------------------------------------------------------------
// IPA
// ------------------------------------------------------------------------------------------------

fn ro_challenge(bytes: &[u8]) -> JFr {
    let mut i = 0u64;
    loop {
        let mut input = bytes.to_vec();
        input.extend(i.to_le_bytes());
        let h = Blake2s256::digest(&input);
        if let Some(x) = <JFr as Field>::from_random_bytes(&h) {
            return x;
        }
        i += 1;
    }
}

fn rj(seed: u64) -> JAff {
    JProj::rand(&mut rng(seed)).into_affine()
}

impl RefV for Ipa {
    fn components(t: &Tr<Self>) -> Vec<String> {
        let mut v = Vec::new();
        for (j, c) in t.comms.iter().enumerate() {
            v.push(format!("commitment[{j}].comm"));
            if c.commitment().shifted_comm.is_some() {
                v.push(format!("commitment[{j}].shifted_comm"));
                v.push(format!("commitment[{j}].degree_bound"));
            }
            v.push(format!("value[{j}]"));
        }
        v.push("point".into());
        for i in 0..t.proof.l_vec.len() {
            v.push(format!("proof.l_vec[{i}]"));
        }
        for i in 0..t.proof.r_vec.len() {
            v.push(format!("proof.r_vec[{i}]"));
        }
        v.extend(["proof.final_comm_key", "proof.c"].iter().map(|s| s.to_string()));
        if t.proof.hiding_comm.is_some() {
            v.push("proof.hiding_comm".into());
            v.push("proof.rand".into());
        }
        v.extend(["vk.h", "vk.s"].iter().map(|s| s.to_string()));
        for i in 0..t.vk.comm_key.len().min(6) {
            v.push(format!("vk.comm_key[{i}]"));
        }
        v.push(format!("vk.comm_key[{}]", t.vk.comm_key.len() - 1));
        v
    }
    fn replace(t: &mut Tr<Self>, k: usize, seed: u64) {
        let name = Self::components(t)[k].clone();
        let idx = |s: &str| -> usize { s[s.find('[').unwrap() + 1..s.find(']').unwrap()].parse().unwrap() };
        let jfr = JFr::rand(&mut rng(seed));
        if name.starts_with("commitment[") {
            let j = idx(&name);
            let mut c = *t.comms[j].commitment();
            let mut b = t.comms[j].degree_bound();
            if name.ends_with(".comm") {
                c.comm = rj(seed);
            } else if name.ends_with(".shifted_comm") {
                c.shifted_comm = Some(rj(seed));
            } else {
                let d = t.vk.comm_key.len() - 1;
                if (seed >> 17) % 3 == 0 {
                    // a bound beyond the supported degree (the published relation has none: refuse)
                    b = Some([d + 1, d + 2, d + 9, 2 * d + 1, usize::MAX][((seed >> 19) % 5) as usize]);
                } else {
                    let nb = 1 + (seed as usize) % d.max(1);
                    b = Some(if Some(nb) == b { (nb % d.max(1)) + 1 } else { nb });
                }
            }
            t.comms[j] = relabel(&t.comms[j], c, b);
        } else if name.starts_with("value[") {
            t.values[idx(&name)] = jfr;
        } else if name.starts_with("proof.l_vec[") {
            t.proof.l_vec[idx(&name)] = rj(seed);
        } else if name.starts_with("proof.r_vec[") {
            t.proof.r_vec[idx(&name)] = rj(seed);
        } else if name.starts_with("vk.comm_key[") {
            t.vk.comm_key[idx(&name)] = rj(seed);
        } else {
            match name.as_str() {
                "point" => t.point = jfr,
                "proof.final_comm_key" => t.proof.final_comm_key = rj(seed),
                "proof.c" => t.proof.c = jfr,
                "proof.hiding_comm" => t.proof.hiding_comm = Some(rj(seed)),
                "proof.rand" => t.proof.rand = Some(jfr),
                "vk.h" => t.vk.h = rj(seed),
                _ => t.vk.s = rj(seed),
            }
        }
    }
    fn reference(t: &Tr<Self>, sp: &mut PoseidonSponge<JFr>) -> bool {
        let vk = &t.vk;
        let d = vk.comm_key.len() - 1;
        if !(d + 1).is_power_of_two() || t.comms.len() != t.values.len() {
            return false;
        }
        let k = (d + 1).trailing_zeros() as usize;
        if t.proof.l_vec.len() != k || t.proof.r_vec.len() != k {
            return false;
        }
        if t.proof.hiding_comm.is_some() != t.proof.rand.is_some() {
            return false;
        }
        let hb: Vec<bool> = t.comms.iter().map(|c| c.degree_bound().is_some()).collect();
        let ch = challenges(Schedule::Ipa, &hb, sp);
        let z = t.point;
        let mut c_acc = JProj::zero();
        let mut v_acc = JFr::zero();
        for (j, c) in t.comms.iter().enumerate() {
            let cm = c.commitment();
            if c.degree_bound().is_some() != cm.shifted_comm.is_some() {
                return false;
            }
            c_acc += cm.comm * ch[j].0;
            v_acc += ch[j].0 * t.values[j];
            if let Some(b) = c.degree_bound() {
                if b > d {
                    return false;
                }
                let shift = z.pow([(d - b) as u64]);
                v_acc += ch[j].1.unwrap() * t.values[j] * shift;
                c_acc += cm.shifted_comm.unwrap() * ch[j].1.unwrap();
            }
        }
        if let (Some(hc), Some(rd)) = (t.proof.hiding_comm, t.proof.rand) {
            let mut bytes = ser_unc(&c_acc.into_affine());
            bytes.extend(ser_unc(&z));
            bytes.extend(ser_unc(&v_acc));
            bytes.extend(ser_unc(&hc));
            let x = ro_challenge(&bytes);
            c_acc += hc * x - vk.s * rd;
        }
        let mut bytes = ser_unc(&c_acc.into_affine());
        bytes.extend(ser_unc(&z));
        bytes.extend(ser_unc(&v_acc));
        let mut rc = ro_challenge(&bytes);
        let h_prime = (vk.h * rc).into_affine();
        let mut round = c_acc + h_prime * v_acc;
        let mut us = Vec::new();
        for (l, r) in t.proof.l_vec.iter().zip(&t.proof.r_vec) {
            let mut bytes = ser_unc(&rc);
            bytes.extend(ser_unc(l));
            bytes.extend(ser_unc(r));
            rc = ro_challenge(&bytes);
            us.push(rc);
            let Some(inv) = rc.inverse() else { return false };
            round += *l * inv + *r * rc;
        }
        // h(X) = prod_i (1 + u_i X^(2^(k-i)))
        let mut hz = JFr::one();
        let mut coeffs = vec![JFr::one()];
        for (i, u) in us.iter().enumerate() {
            let e = 1u64 << (k - (i + 1));
            hz *= JFr::one() + *u * z.pow([e]);
            let step = e as usize;
            let mut next = vec![JFr::zero(); coeffs.len() + step];
            for (j, cj) in coeffs.iter().enumerate() {
                next[j] += *cj;
                next[j + step] += *cj * u;
            }
            coeffs = next;
        }
        if round != t.proof.final_comm_key * t.proof.c + h_prime * (t.proof.c * hz) {
            return false;
        }
        let mut key = JProj::zero();
        for (g, c) in vk.comm_key.iter().zip(&coeffs) {
            key += *g * c;
        }
        key.into_affine() == t.proof.final_comm_key
    }
}

// ------------------------------------------------------------------------------------------------
// Hyrax
// ------------------------------------------------------------------------------------------------

pub fn eq_tensor(values: &[Fr]) -> Vec<Fr> {
    // index bit of values[0] is the most significant
    let mut out = vec![Fr::one()];
    for v in values.iter().rev() {
        let mut next = Vec::with_capacity(out.len() * 2);
        for x in &out {
            next.push(*x * (Fr::one() - v));
        }
        for x in &out {
            next.push(*x * v);
        }
        out = next;
    }
    out
}

impl RefV for Hyrax {
    fn components(t: &Tr<Self>) -> Vec<String> {
        let mut v = Vec::new();
        for (j, c) in t.comms.iter().enumerate() {
            let rows = c.commitment().row_coms.len();
            v.push(format!("commitment[{j}].row_coms[0]"));
            if rows > 1 {
                v.push(format!("commitment[{j}].row_coms[{}]", rows - 1));
            }
            v.push(format!("value[{j}]"));
        }
        for i in 0..t.point.len() {
            v.push(format!("point[{i}]"));
        }
        for (j, p) in t.proof.iter().enumerate() {
            for f in ["com_eval", "com_d", "com_b", "z_d", "z_b", "r_eval"] {
                v.push(format!("proof[{j}].{f}"));
            }
            v.push(format!("proof[{j}].z[0]"));
            if p.z.len() > 1 {
                v.push(format!("proof[{j}].z[{}]", p.z.len() - 1));
            }
        }
        v.push("vk.h".into());
        v.push("vk.com_key[0]".into());
        if t.vk.com_key.len() > 1 {
            v.push(format!("vk.com_key[{}]", t.vk.com_key.len() - 1));
        }
        v
    }
    fn replace(t: &mut Tr<Self>, k: usize, seed: u64) {
        let name = Self::components(t)[k].clone();
        let nums: Vec<usize> = name.split(|c: char| !c.is_ascii_digit()).filter(|s| !s.is_empty()).map(|s| s.parse().unwrap()).collect();
        if name.starts_with("commitment[") {
            let mut c = t.comms[nums[0]].commitment().clone();
            c.row_coms[nums[1]] = rg1(seed);
            t.comms[nums[0]] = relabel(&t.comms[nums[0]], c, t.comms[nums[0]].degree_bound());
        } else if name.starts_with("value[") {
            t.values[nums[0]] = rfr(seed);
        } else if name.starts_with("point[") {
            t.point[nums[0]] = rfr(seed);
        } else if name.starts_with("proof[") {
            let p = &mut t.proof[nums[0]];
            if name.contains(".z[") {
                p.z[nums[1]] = rfr(seed);
            } else if name.ends_with("com_eval") {
                p.com_eval = rg1(seed);
            } else if name.ends_with("com_d") {
                p.com_d = rg1(seed);
            } else if name.ends_with("com_b") {
                p.com_b = rg1(seed);
            } else if name.ends_with("z_d") {
                p.z_d = rfr(seed);
            } else if name.ends_with("z_b") {
                p.z_b = rfr(seed);
            } else {
                p.r_eval = rfr(seed);
            }
        } else if name == "vk.h" {
            t.vk.h = rg1(seed);
        } else {
            t.vk.com_key[nums[0]] = rg1(seed);
        }
    }
    fn reference(t: &Tr<Self>, sp: &mut PoseidonSponge<Fr>) -> bool {
        let n = t.point.len();
        if n % 2 == 1 || t.comms.len() != t.values.len() || t.comms.len() != t.proof.len() {
            return false;
        }
        let dim = 1usize << (n / 2);
        let rev: Vec<Fr> = t.point.iter().rev().cloned().collect();
        let l = eq_tensor(&rev[n / 2..]);
        let r = eq_tensor(&rev[..n / 2]);
        let vk = &t.vk;
        if vk.com_key.len() != dim {
            return false;
        }
        for ((c, value), p) in t.comms.iter().zip(&t.values).zip(t.proof.iter()) {
            let rows = &c.commitment().row_coms;
            if rows.len() != dim || p.z.len() != dim {
                return false;
            }
            // the scheme absorbs the uncompressed canonical bytes of key, commitment and auxiliary commitments
            sp.absorb(&ser_unc(vk));
            sp.absorb(&ser_unc(rows));
            sp.absorb(&t.point);
            sp.absorb(&ser_unc(&p.com_eval));
            sp.absorb(&ser_unc(&p.com_d));
            sp.absorb(&ser_unc(&p.com_b));
            let ch: Fr = sp.squeeze_field_elements(1)[0];
            // the evaluation commitment opens to the claimed value
            if (vk.com_key[0] * value + vk.h * p.r_eval).into_affine() != p.com_eval {
                return false;
            }
            // (14): <r, z> G_0 + z_b h = c com_eval + com_b
            let rz = r.iter().zip(&p.z).fold(Fr::zero(), |a, (x, y)| a + *x * y);
            if vk.com_key[0] * rz + vk.h * p.z_b != p.com_eval * ch + p.com_b {
                return false;
            }
            // (13): <z, G> + z_d h = c T' + com_d,  T' = sum l_i row_i
            let mut tp = G1::zero();
            for (li, row) in l.iter().zip(rows) {
                tp += *row * li;
            }
            let mut lhs = vk.h * p.z_d;
            for (zi, g) in p.z.iter().zip(&vk.com_key) {
                lhs += *g * zi;
            }
            if lhs != tp * ch + p.com_d {
                return false;
            }
        }
        true
    }
}

// ------------------------------------------------------------------------------------------------
// Ligero / Brakedown
// ------------------------------------------------------------------------------------------------

macro_rules! lin_refv {
    ($s:ty) => {
        impl RefV for $s {
            fn components(t: &Tr<Self>) -> Vec<String> {
                let mut v = Vec::new();
                let proofs: Vec<MProof> = lincode::proofs_mirror::<Self>(&t.proof).unwrap_or_default();
                for j in 0..t.comms.len() {
                    v.push(format!("commitment[{j}].root"));
                    v.push(format!("value[{j}]"));
                }
                v.push("point".into());
                v.push("vk.check_well_formedness".into());
                v.push("vk.sec_param".into());
                for (j, p) in proofs.iter().enumerate() {
                    v.push(format!("proof[{j}].well_formedness(presence)"));
                    if !p.opening.v.is_empty() {
                        v.push(format!("proof[{j}].v[{}]", p.opening.v.len() / 2));
                    }
                    if let Some(w) = &p.well_formedness {
                        if !w.is_empty() {
                            v.push(format!("proof[{j}].well_formedness[{}]", w.len() - 1));
                        }
                    }
                    if !p.opening.columns.is_empty() {
                        let last = p.opening.columns.len() - 1;
                        v.push(format!("proof[{j}].columns[0][0]"));
                        v.push(format!("proof[{j}].columns[{last}][0]"));
                        v.push(format!("proof[{j}].paths[{last}].leaf_sibling_hash"));
                        v.push(format!("proof[{j}].paths[0].auth_path[0]"));
                        v.push(format!("proof[{j}].paths[{last}].leaf_index"));
                    }
                }
                v
            }
            fn replace(t: &mut Tr<Self>, k: usize, seed: u64) {
                let name = Self::components(t)[k].clone();
                let nums: Vec<usize> = name.split(|c: char| !c.is_ascii_digit()).filter(|s| !s.is_empty()).map(|s| s.parse().unwrap()).collect();
                if name.starts_with("commitment[") {
                    if let Ok(mut m) = lincode::comm_mirror::<Self>(&t.comms[nums[0]]) {
                        let mut g = rng(seed);
                        use rand_core::RngCore;
                        for b in m.root.iter_mut() {
                            *b = g.next_u32() as u8;
                        }
                        if let Ok(c) = lincode::mirror::<MComm, Comm<Self>>(&m) {
                            t.comms[nums[0]] = relabel(&t.comms[nums[0]], c, t.comms[nums[0]].degree_bound());
                        }
                    }
                } else if name.starts_with("value[") {
                    t.values[nums[0]] = rfr(seed);
                } else if name == "point" {
                    t.point = <Self as LinPoint>::random_point(&t.point, seed);
                } else if name.starts_with("vk.") {
                    let what = if name.ends_with("sec_param") { "sec" } else { "wf" };
                    if let Some(vk) = <Self as lincode::Lin>::tweak_vk(&t.vk, what, seed) {
                        t.vk = vk;
                    }
                } else {
                    let mut proofs: Vec<MProof> = lincode::proofs_mirror::<Self>(&t.proof).unwrap_or_default();
                    let p = &mut proofs[nums[0]];
                    if name.ends_with("(presence)") {
                        p.well_formedness = match p.well_formedness.take() {
                            Some(_) => None,
                            None => {
                                let mut g = rng(seed);
                                Some((0..p.opening.v.len()).map(|_| Fr::rand(&mut g)).collect())
                            }
                        };
                    } else if name.contains(".v[") {
                        p.opening.v[nums[1]] = rfr(seed);
                    } else if name.contains(".well_formedness[") {
                        p.well_formedness.as_mut().unwrap()[nums[1]] = rfr(seed);
                    } else if name.contains(".columns[") {
                        if !p.opening.columns[nums[1]].is_empty() {
                            p.opening.columns[nums[1]][0] = rfr(seed);
                        }
                    } else if name.ends_with("leaf_sibling_hash") {
                        let h = &mut p.opening.paths[nums[1]].leaf_sibling_hash;
                        if h.is_empty() {
                            h.push(1);
                        } else {
                            h[0] ^= 0x55;
                        }
                    } else if name.contains("auth_path") {
                        let a = &mut p.opening.paths[nums[1]].auth_path;
                        if !a.is_empty() && !a[0].is_empty() {
                            a[0][0] ^= 0x55;
                        } else {
                            p.opening.paths[nums[1]].leaf_sibling_hash.push(7);
                        }
                    } else {
                        p.opening.paths[nums[1]].leaf_index ^= 1;
                    }
                    if let Ok(pr) = lincode::proofs_unmirror::<Self>(&proofs) {
                        t.proof = pr;
                    }
                }
            }
            fn reference(t: &Tr<Self>, sp: &mut PoseidonSponge<Fr>) -> bool {
                let Ok(proofs) = lincode::proofs_mirror::<Self>(&t.proof) else { return false };
                let mut comms = Vec::new();
                for c in &t.comms {
                    match lincode::comm_mirror::<Self>(c) {
                        Ok(m) => comms.push(m),
                        Err(_) => return false,
                    }
                }
                lincode::ref_check::<Self>(&t.vk, &comms, &t.point, &t.values, &proofs, sp).accepted()
            }
        }
    };
}

pub trait LinPoint: Scheme {
    fn random_point(like: &Self::Pt, seed: u64) -> Self::Pt;
}
impl LinPoint for ULigero {
    fn random_point(_like: &Fr, seed: u64) -> Fr {
        rfr(seed)
    }
}
impl LinPoint for MLigero {
    fn random_point(like: &Vec<Fr>, seed: u64) -> Vec<Fr> {
        let mut p = like.clone();
        if !p.is_empty() {
            let i = (seed as usize) % p.len();
            p[i] = rfr(seed);
        }
        p
    }
}
impl LinPoint for Brakedown {
    fn random_point(like: &Vec<Fr>, seed: u64) -> Vec<Fr> {
        <MLigero as LinPoint>::random_point(like, seed)
    }
}

lin_refv!(ULigero);
lin_refv!(MLigero);
lin_refv!(Brakedown);

#[allow(dead_code)]
fn _p<F: PrimeField>(_: F) {}
