//! Small shared helpers: panic capture, deterministic RNGs, raw-choice → field element mapping.

use ark_ff::PrimeField;
use rand_chacha::ChaCha20Rng;
use rand_core::SeedableRng;
use serde::{Deserialize, Serialize};
use std::panic::{catch_unwind, AssertUnwindSafe};

/// Three-valued outcome of a library call.
#[derive(Clone, Debug)]
pub enum Out<T> {
    Ok(T),
    Err(String),
    Abort(String),
}

impl<T> Out<T> {
    pub fn is_ok(&self) -> bool {
        matches!(self, Out::Ok(_))
    }
    pub fn ok(self) -> Option<T> {
        match self {
            Out::Ok(v) => Some(v),
            _ => None,
        }
    }
    pub fn kind(&self) -> &'static str {
        match self {
            Out::Ok(_) => "ok",
            Out::Err(_) => "err",
            Out::Abort(_) => "abort",
        }
    }
    pub fn describe(&self) -> String
    where
        T: std::fmt::Debug,
    {
        match self {
            Out::Ok(v) => {
                let s = format!("Ok({:?})", v);
                if s.len() > 120 {
                    format!("{}…", &s[..120])
                } else {
                    s
                }
            }
            Out::Err(e) => format!("Err({})", trunc(e, 160)),
            Out::Abort(e) => format!("Abort({})", trunc(e, 160)),
        }
    }
    pub fn describe_nodebug(&self) -> String {
        match self {
            Out::Ok(_) => "Ok(..)".to_string(),
            Out::Err(e) => format!("Err({})", trunc(e, 160)),
            Out::Abort(e) => format!("Abort({})", trunc(e, 160)),
        }
    }
    /// Ok(v) -> Ok(v), otherwise an error string naming the stage.
    pub fn need(self, stage: &str) -> Result<T, String> {
        match self {
            Out::Ok(v) => Ok(v),
            Out::Err(e) => Err(format!("{stage}: Err({})", trunc(&e, 200))),
            Out::Abort(e) => Err(format!("{stage}: Abort({})", trunc(&e, 200))),
        }
    }
}

pub fn trunc(s: &str, n: usize) -> String {
    if s.len() <= n {
        s.to_string()
    } else {
        let mut end = n;
        while !s.is_char_boundary(end) {
            end -= 1;
        }
        format!("{}…", &s[..end])
    }
}

/// "not accepted" in the sense of the property texts: false, error or abort.
pub fn not_accepted(o: &Out<bool>) -> bool {
    !matches!(o, Out::Ok(true))
}
pub fn accepted(o: &Out<bool>) -> bool {
    matches!(o, Out::Ok(true))
}

fn panic_msg(p: Box<dyn std::any::Any + Send>) -> String {
    if let Some(s) = p.downcast_ref::<&str>() {
        s.to_string()
    } else if let Some(s) = p.downcast_ref::<String>() {
        s.clone()
    } else {
        "<non-string panic>".to_string()
    }
}

/// Run a fallible library call, capturing panics.
pub fn guard<T, E: std::fmt::Debug>(f: impl FnOnce() -> Result<T, E>) -> Out<T> {
    match catch_unwind(AssertUnwindSafe(f)) {
        Ok(Ok(v)) => Out::Ok(v),
        Ok(Err(e)) => Out::Err(format!("{:?}", e)),
        Err(p) => Out::Abort(panic_msg(p)),
    }
}

/// Run an infallible library call, capturing panics.
pub fn guard_plain<T>(f: impl FnOnce() -> T) -> Out<T> {
    match catch_unwind(AssertUnwindSafe(f)) {
        Ok(v) => Out::Ok(v),
        Err(p) => Out::Abort(panic_msg(p)),
    }
}

pub fn silence_panics() {
    std::panic::set_hook(Box::new(|_| {}));
}

pub fn rng(seed: u64) -> ChaCha20Rng {
    ChaCha20Rng::seed_from_u64(seed)
}

/// FNV-1a 64-bit over bytes; used for seeds and distinct-case hashing (not security relevant).
pub fn fnv64(data: &[u8]) -> u64 {
    let mut h: u64 = 0xcbf29ce484222325;
    for b in data {
        h ^= *b as u64;
        h = h.wrapping_mul(0x100000001b3);
    }
    h
}

pub fn mix_seed(seed: u64, parts: &[&str]) -> u64 {
    let mut v = seed.to_le_bytes().to_vec();
    for p in parts {
        v.push(0xff);
        v.extend_from_slice(p.as_bytes());
    }
    // splitmix finalizer on top of fnv for better diffusion
    let mut z = fnv64(&v).wrapping_add(0x9e3779b97f4a7c15);
    z = (z ^ (z >> 30)).wrapping_mul(0xbf58476d1ce4e5b9);
    z = (z ^ (z >> 27)).wrapping_mul(0x94d049bb133111eb);
    z ^ (z >> 31)
}

/// Raw choice for a field element: special values stay frequent and scenarios stay printable.
#[derive(Clone, Copy, Debug, PartialEq, Eq, Hash, Serialize, Deserialize)]
pub enum FRaw {
    Zero,
    One,
    MinusOne,
    Small(u8),
    Rand(u64),
}

impl FRaw {
    pub fn to_f<F: PrimeField>(&self) -> F {
        match self {
            FRaw::Zero => F::zero(),
            FRaw::One => F::one(),
            FRaw::MinusOne => -F::one(),
            FRaw::Small(k) => F::from(*k as u64 + 2),
            FRaw::Rand(s) => F::rand(&mut rng(*s ^ 0x5eed_f1e1d)),
        }
    }
    /// A vector of `n` field elements derived from this choice.
    pub fn to_vec<F: PrimeField>(&self, n: usize) -> Vec<F> {
        match self {
            FRaw::Zero => vec![F::zero(); n],
            FRaw::One => vec![F::one(); n],
            FRaw::MinusOne => vec![-F::one(); n],
            FRaw::Small(k) => (0..n).map(|i| F::from(*k as u64 + 2 + i as u64)).collect(),
            FRaw::Rand(s) => {
                let mut r = rng(*s ^ 0x5eed_f1e1d);
                (0..n).map(|_| F::rand(&mut r)).collect()
            }
        }
    }
}

/// Monotone map of a raw index into `0..len` (keeps shrinking monotone). `len` must be > 0.
pub fn pick(raw: u16, len: usize) -> usize {
    debug_assert!(len > 0);
    ((raw as usize) * len) >> 16
}

/// Deterministic permutation of 0..n from a seed; seed 0 is the identity.
pub fn permutation(n: usize, seed: u32) -> Vec<usize> {
    let mut v: Vec<usize> = (0..n).collect();
    if seed == 0 || n < 2 {
        return v;
    }
    use rand_core::RngCore;
    let mut r = rng(seed as u64 ^ 0x9e37_79b9);
    for i in (1..n).rev() {
        let j = (r.next_u32() as usize) % (i + 1);
        v.swap(i, j);
    }
    v
}

pub fn is_identity(p: &[usize]) -> bool {
    p.iter().enumerate().all(|(i, x)| i == *x)
}

pub fn hex(bytes: &[u8]) -> String {
    let mut s = String::with_capacity(bytes.len() * 2);
    for b in bytes {
        s.push_str(&format!("{:02x}", b));
    }
    s
}

pub fn ser<T: ark_serialize::CanonicalSerialize>(x: &T) -> Vec<u8> {
    let mut v = Vec::new();
    x.serialize_compressed(&mut v).expect("serialize");
    v
}

pub fn ser_unc<T: ark_serialize::CanonicalSerialize>(x: &T) -> Vec<u8> {
    let mut v = Vec::new();
    x.serialize_uncompressed(&mut v).expect("serialize");
    v
}

/// Shape variety for generated dense coefficient vectors (leading coefficient kept): one vector in
/// three gets its k lowest coefficients zeroed, k in 1..=deg (k = deg leaves a monomial). The choice is
/// drawn from its own stream so that the coefficients of the other two thirds do not move.
pub fn low_zeros<F: ark_ff::Field>(c: &mut [F], seed: u64) {
    use rand_core::RngCore;
    let deg = c.len().saturating_sub(1);
    if deg == 0 {
        return;
    }
    let mut g = rng(seed ^ 0x10a2_e705);
    if g.next_u64() % 3 == 0 {
        let k = 1 + (g.next_u64() as usize) % deg;
        for x in c.iter_mut().take(k) {
            *x = F::zero();
        }
    }
}
