//! Independent algebraic oracles: the key-defined commitment as a naive multi-scalar sum over the
//! *published* key elements (plain scalar multiplications and additions, no MSM, no leading-zero
//! skipping, no windows), and access to the blinding randomness of each scheme.

use crate::lincode::mirror;
use crate::schemes::*;
use crate::types::*;
use ark_ec::{AffineRepr, CurveGroup};
use ark_ff::{PrimeField, Zero};
use ark_poly::{multivariate::{SparseTerm, Term}, DenseMVPolynomial, DenseUVPolynomial, Polynomial};
use ark_serialize::{CanonicalDeserialize, CanonicalSerialize};

pub fn naive_sum<A: AffineRepr>(bases: &[A], scalars: &[A::ScalarField]) -> Result<A::Group, String> {
    if scalars.len() > bases.len() {
        return Err(format!("{} scalars but only {} key elements", scalars.len(), bases.len()));
    }
    let mut acc = A::Group::zero();
    for (b, s) in bases.iter().zip(scalars) {
        acc += b.mul_bigint(s.into_bigint());
    }
    Ok(acc)
}

/// What a blinded commitment part is blinded with.
pub struct Blinding<G> {
    /// the blinding term as a group element, computed from the returned state and the published hiding generators
    pub term: G,
    /// number of random coefficients the state holds for this part
    pub ncoeffs: usize,
    pub all_nonzero: bool,
    pub all_distinct: bool,
    /// canonical bytes of the randomness of this part (to compare parts and runs)
    pub bytes: Vec<u8>,
}

/// Schemes whose commitments are group elements defined by the key.
pub trait Alg: Scheme {
    type Grp: CurveGroup<ScalarField = Self::F>;
    /// commitment parts as group elements: `[plain]`, `[plain, shifted]` or one element per row (Hyrax)
    fn comm_parts(c: &Comm<Self>) -> Vec<Self::Grp>;
    /// the same layout computed naively from the committer key
    fn naive_parts(keys: &Keys<Self>, p: &Self::P, bound: Option<usize>) -> Result<Vec<Self::Grp>, String>;
    /// blinding per part, from the returned state (None for a part = that part is not blinded in this state)
    fn blinding(keys: &Keys<Self>, st: &State<Self>, bound: Option<usize>) -> Result<Vec<Option<Blinding<Self::Grp>>>, String>;
    /// expected number of random coefficients per blinded part for hiding bound h
    fn expected_coeffs(keys: &Keys<Self>, h: usize) -> usize;
    fn state_bytes(st: &State<Self>) -> Vec<u8> {
        crate::util::ser(st)
    }
    /// the same polynomial in another representation its type admits (public fields): explicit
    /// zero-coefficient terms, another term order. None = the type has one representation only.
    fn alt_representation(_keys: &Keys<Self>, _p: &Self::P, _seed: u64) -> Option<(Self::P, &'static str)> {
        None
    }
    /// evaluation of the blinding polynomial(s) of a state at a point: (plain, shifted)
    fn blinding_eval(_st: &State<Self>, _z: &Self::Pt) -> Option<(Self::F, Option<Self::F>)> {
        None
    }
    /// `empty + (a, sp) + (b, sq)` through the scheme's own AddAssign on its randomness type
    fn combine_states(_a: Self::F, _sp: &State<Self>, _b: Self::F, _sq: &State<Self>) -> Option<State<Self>> {
        None
    }
    /// the blinding-related content of a proof
    fn proof_blinding(_p: &Proof<Self>) -> ProofBlind<Self::F> {
        ProofBlind::Opaque
    }
}

pub enum ProofBlind<F> {
    /// KZG-style: evaluation of the combined blinding polynomial
    RandomV(Option<F>),
    /// IPA: (hiding commitment bytes, combined randomness)
    Ipa(Option<Vec<u8>>, Option<F>),
    Opaque,
}

fn coeffs_stats<F: PrimeField>(c: &[F]) -> (bool, bool) {
    let nz = c.iter().all(|x| !x.is_zero());
    let mut s: Vec<F> = c.to_vec();
    s.sort();
    s.dedup();
    (nz, s.len() == c.len())
}

fn kzg_blinding(
    gamma: &[G1A],
    r: &ark_poly_commit::kzg10::Randomness<Fr, UniPoly>,
) -> Result<Option<Blinding<G1>>, String> {
    let c = r.blinding_polynomial.coeffs();
    if c.is_empty() {
        return Ok(None);
    }
    let (nz, di) = coeffs_stats(c);
    Ok(Some(Blinding {
        term: naive_sum(gamma, c)?,
        ncoeffs: c.len(),
        all_nonzero: nz,
        all_distinct: di,
        bytes: crate::util::ser(r),
    }))
}

impl Alg for Marlin {
    type Grp = G1;
    fn comm_parts(c: &Comm<Self>) -> Vec<G1> {
        let mut v = vec![c.comm.0.into_group()];
        if let Some(s) = &c.shifted_comm {
            v.push(s.0.into_group());
        }
        v
    }
    fn naive_parts(keys: &Keys<Self>, p: &UniPoly, bound: Option<usize>) -> Result<Vec<G1>, String> {
        let ck = &keys.ck;
        let mut v = vec![naive_sum(&ck.powers, p.coeffs())?];
        if let Some(b) = bound {
            let sp = ck.shifted_powers.as_ref().ok_or("key has no shifted powers")?;
            let maxb = *ck.enforced_degree_bounds.as_ref().and_then(|e| e.last()).ok_or("no enforced bounds")?;
            if b > maxb {
                return Err("bound above the largest enforced bound".into());
            }
            v.push(naive_sum(&sp[(maxb - b)..], p.coeffs())?);
        }
        Ok(v)
    }
    fn blinding(keys: &Keys<Self>, st: &State<Self>, bound: Option<usize>) -> Result<Vec<Option<Blinding<G1>>>, String> {
        let g = &keys.ck.powers_of_gamma_g;
        let mut v = vec![kzg_blinding(g, &st.rand)?];
        if bound.is_some() {
            match &st.shifted_rand {
                Some(r) => v.push(kzg_blinding(g, r)?),
                None => v.push(None),
            }
        }
        Ok(v)
    }
    fn expected_coeffs(_keys: &Keys<Self>, h: usize) -> usize {
        h + 2
    }
    fn blinding_eval(st: &State<Self>, z: &Fr) -> Option<(Fr, Option<Fr>)> {
        Some((
            st.rand.blinding_polynomial.evaluate(z),
            st.shifted_rand.as_ref().map(|r| r.blinding_polynomial.evaluate(z)),
        ))
    }
    fn combine_states(a: Fr, sp: &State<Self>, b: Fr, sq: &State<Self>) -> Option<State<Self>> {
        use ark_poly_commit::PCCommitmentState;
        let mut r = <State<Self> as PCCommitmentState>::empty();
        r += (a, sp);
        r += (b, sq);
        Some(r)
    }
    fn proof_blinding(p: &Proof<Self>) -> ProofBlind<Fr> {
        ProofBlind::RandomV(p.random_v)
    }
}

impl Alg for Sonic {
    type Grp = G1;
    fn comm_parts(c: &Comm<Self>) -> Vec<G1> {
        vec![c.0.into_group()]
    }
    fn naive_parts(keys: &Keys<Self>, p: &UniPoly, bound: Option<usize>) -> Result<Vec<G1>, String> {
        let ck = &keys.ck;
        match bound {
            None => Ok(vec![naive_sum(&ck.powers_of_g, p.coeffs())?]),
            Some(b) => {
                let sp = ck.shifted_powers_of_g.as_ref().ok_or("key has no shifted powers")?;
                let maxb = *ck.enforced_degree_bounds.as_ref().and_then(|e| e.last()).ok_or("no enforced bounds")?;
                if b > maxb {
                    return Err("bound above the largest enforced bound".into());
                }
                Ok(vec![naive_sum(&sp[(maxb - b)..], p.coeffs())?])
            }
        }
    }
    fn blinding(keys: &Keys<Self>, st: &State<Self>, bound: Option<usize>) -> Result<Vec<Option<Blinding<G1>>>, String> {
        let ck = &keys.ck;
        let g: Vec<G1A> = match bound {
            None => ck.powers_of_gamma_g.clone(),
            Some(b) => ck
                .shifted_powers_of_gamma_g
                .as_ref()
                .and_then(|m| m.get(&b))
                .cloned()
                .ok_or("no shifted gamma powers for this bound")?,
        };
        Ok(vec![kzg_blinding(&g, st)?])
    }
    fn expected_coeffs(_keys: &Keys<Self>, h: usize) -> usize {
        h + 2
    }
    fn blinding_eval(st: &State<Self>, z: &Fr) -> Option<(Fr, Option<Fr>)> {
        Some((st.blinding_polynomial.evaluate(z), None))
    }
    fn combine_states(a: Fr, sp: &State<Self>, b: Fr, sq: &State<Self>) -> Option<State<Self>> {
        use ark_poly_commit::PCCommitmentState;
        let mut r = <State<Self> as PCCommitmentState>::empty();
        r += (a, sp);
        r += (b, sq);
        Some(r)
    }
    fn proof_blinding(p: &Proof<Self>) -> ProofBlind<Fr> {
        ProofBlind::RandomV(p.random_v)
    }
}

impl Alg for Ipa {
    type Grp = JProj;
    fn comm_parts(c: &Comm<Self>) -> Vec<JProj> {
        let mut v = vec![c.comm.into_group()];
        if let Some(s) = &c.shifted_comm {
            v.push(s.into_group());
        }
        v
    }
    fn naive_parts(keys: &Keys<Self>, p: &JUniPoly, bound: Option<usize>) -> Result<Vec<JProj>, String> {
        let ck = &keys.ck;
        let mut v = vec![naive_sum(&ck.comm_key, p.coeffs())?];
        if let Some(b) = bound {
            let s = ck.comm_key.len() - 1;
            if b > s {
                return Err("bound above the supported degree".into());
            }
            v.push(naive_sum(&ck.comm_key[(s - b)..], p.coeffs())?);
        }
        Ok(v)
    }
    fn blinding(keys: &Keys<Self>, st: &State<Self>, bound: Option<usize>) -> Result<Vec<Option<Blinding<JProj>>>, String> {
        let s = keys.ck.s;
        let one = |r: JFr| Blinding {
            term: s.mul_bigint(r.into_bigint()),
            ncoeffs: 1,
            all_nonzero: !r.is_zero(),
            all_distinct: true,
            bytes: crate::util::ser(&r),
        };
        let mut v = vec![if st.rand.is_zero() { None } else { Some(one(st.rand)) }];
        if bound.is_some() {
            v.push(st.shifted_rand.map(one));
        }
        Ok(v)
    }
    fn expected_coeffs(_keys: &Keys<Self>, _h: usize) -> usize {
        1
    }
    fn proof_blinding(p: &Proof<Self>) -> ProofBlind<JFr> {
        ProofBlind::Ipa(p.hiding_comm.map(|c| crate::util::ser(&c)), p.rand)
    }
}

impl Alg for Pst13 {
    type Grp = G1;
    fn comm_parts(c: &Comm<Self>) -> Vec<G1> {
        let mut v = vec![c.comm.0.into_group()];
        if let Some(s) = &c.shifted_comm {
            v.push(s.0.into_group());
        }
        v
    }
    fn alt_representation(keys: &Keys<Self>, p: &MVPoly, seed: u64) -> Option<(MVPoly, &'static str)> {
        use rand_core::RngCore;
        let mut g = crate::util::rng(seed ^ 0xa17e);
        let mut terms: Vec<(Fr, SparseTerm)> = p.terms().to_vec();
        let monos: Vec<&SparseTerm> = keys.ck.powers_of_g.keys().collect();
        match g.next_u64() % 3 {
            0 => {
                // an explicit zero-coefficient term of a monomial the key covers, anywhere in the list
                let t = monos[(g.next_u64() as usize) % monos.len()].clone();
                if terms.iter().any(|(_, u)| *u == t) {
                    return None;
                }
                let at = (g.next_u64() as usize) % (terms.len() + 1);
                terms.insert(at, (Fr::zero(), t));
                Some((MVPoly { num_vars: p.num_vars, terms }, "explicit_zero_term"))
            }
            1 if terms.len() >= 2 => {
                // another term order
                let k = 1 + (g.next_u64() as usize) % (terms.len() - 1);
                terms.rotate_left(k);
                Some((MVPoly { num_vars: p.num_vars, terms }, "terms_in_another_order"))
            }
            _ => {
                // both: zero terms in front and at the end, reversed order
                terms.reverse();
                for _ in 0..2 {
                    let t = monos[(g.next_u64() as usize) % monos.len()].clone();
                    if !terms.iter().any(|(_, u)| *u == t) {
                        terms.insert(0, (Fr::zero(), t));
                    }
                }
                Some((MVPoly { num_vars: p.num_vars, terms }, "zero_terms_and_reversed_order"))
            }
        }
    }
    fn naive_parts(keys: &Keys<Self>, p: &MVPoly, _bound: Option<usize>) -> Result<Vec<G1>, String> {
        let mut acc = G1::zero();
        for (c, t) in p.terms() {
            let g = keys.ck.powers_of_g.get(t).ok_or_else(|| format!("no key element for monomial {:?}", t))?;
            acc += g.mul_bigint(c.into_bigint());
        }
        Ok(vec![acc])
    }
    fn blinding(keys: &Keys<Self>, st: &State<Self>, _bound: Option<usize>) -> Result<Vec<Option<Blinding<G1>>>, String> {
        let terms = st.blinding_polynomial.terms();
        if terms.is_empty() {
            return Ok(vec![None]);
        }
        let mut acc = G1::zero();
        let mut coeffs = Vec::new();
        for (c, t) in terms {
            let g = if t.is_constant() {
                keys.ck.gamma_g
            } else {
                let vars = t.vars();
                if vars.len() != 1 {
                    return Err("blinding polynomial has a mixed monomial".into());
                }
                *keys
                    .ck
                    .powers_of_gamma_g
                    .get(vars[0])
                    .and_then(|v| v.get(t.degree() - 1))
                    .ok_or("no gamma power for a blinding monomial")?
            };
            acc += g.mul_bigint(c.into_bigint());
            coeffs.push(*c);
        }
        let (nz, di) = coeffs_stats(&coeffs);
        Ok(vec![Some(Blinding {
            term: acc,
            ncoeffs: coeffs.len(),
            all_nonzero: nz,
            all_distinct: di,
            bytes: crate::util::ser(st),
        })])
    }
    fn expected_coeffs(keys: &Keys<Self>, h: usize) -> usize {
        keys.info.num_vars * (h + 1) + 1
    }
    fn blinding_eval(st: &State<Self>, z: &Vec<Fr>) -> Option<(Fr, Option<Fr>)> {
        Some((st.blinding_polynomial.evaluate(z), None))
    }
    fn combine_states(a: Fr, sp: &State<Self>, b: Fr, sq: &State<Self>) -> Option<State<Self>> {
        use ark_poly_commit::PCCommitmentState;
        let mut r = <State<Self> as PCCommitmentState>::empty();
        r += (a, sp);
        r += (b, sq);
        Some(r)
    }
    fn proof_blinding(p: &Proof<Self>) -> ProofBlind<Fr> {
        ProofBlind::RandomV(p.random_v)
    }
}

#[derive(Clone, CanonicalSerialize, CanonicalDeserialize)]
pub struct MHyraxState {
    pub randomness: Vec<Fr>,
    pub mat: crate::lincode::MMatrix,
}

impl Alg for Hyrax {
    type Grp = G1;
    fn comm_parts(c: &Comm<Self>) -> Vec<G1> {
        c.row_coms.iter().map(|r| r.into_group()).collect()
    }
    fn naive_parts(keys: &Keys<Self>, p: &MLE, _bound: Option<usize>) -> Result<Vec<G1>, String> {
        let n = p.num_vars;
        if n % 2 != 0 {
            return Err("odd number of variables".into());
        }
        let dim = 1usize << (n / 2);
        if keys.ck.com_key.len() != dim {
            return Err("key size does not match the polynomial".into());
        }
        // row i of the matrix = evaluations[i + dim*j], j = 0..dim (column-major arrangement of the flat vector)
        let mut rows = Vec::new();
        for i in 0..dim {
            let row: Vec<Fr> = (0..dim).map(|j| p.evaluations[j * dim + i]).collect();
            rows.push(naive_sum(&keys.ck.com_key, &row)?);
        }
        Ok(rows)
    }
    fn blinding(keys: &Keys<Self>, st: &State<Self>, _bound: Option<usize>) -> Result<Vec<Option<Blinding<G1>>>, String> {
        let m: MHyraxState = mirror(st)?;
        Ok(m.randomness
            .iter()
            .map(|r| {
                Some(Blinding {
                    term: keys.ck.h.mul_bigint(r.into_bigint()),
                    ncoeffs: 1,
                    all_nonzero: !r.is_zero(),
                    all_distinct: true,
                    bytes: crate::util::ser(r),
                })
            })
            .collect())
    }
    fn expected_coeffs(_keys: &Keys<Self>, _h: usize) -> usize {
        1
    }
}
