//! Everything the harness knows about the code-based schemes independently of the library:
//! mirror structs for the crate-private types (through canonical serialization), the reference
//! Merkle root, the exact soundness bound, the index derivation and a reference verifier.

use crate::schemes::*;
use crate::types::*;
use crate::util::{ser, Out};
use ark_crypto_primitives::merkle_tree::Path;
use ark_crypto_primitives::sponge::{poseidon::PoseidonSponge, CryptographicSponge};
use ark_ff::{BigInteger, Field, PrimeField, Zero};
use ark_poly::Polynomial;
use ark_poly_commit::linear_codes::{LinCodeParametersInfo, LinearEncode};
use ark_poly_commit::LabeledCommitment;
use ark_serialize::{CanonicalDeserialize, CanonicalSerialize};
use num_bigint::BigUint;
use num_traits::{One as _, Zero as _};
use sha2::{Digest, Sha256};

#[derive(Clone, Debug, Default, CanonicalSerialize, CanonicalDeserialize, PartialEq, Eq)]
pub struct MMeta {
    pub n_rows: usize,
    pub n_cols: usize,
    pub n_ext_cols: usize,
}

#[derive(Clone, Debug, Default, CanonicalSerialize, CanonicalDeserialize, PartialEq, Eq)]
pub struct MComm {
    pub metadata: MMeta,
    pub root: Vec<u8>,
}

#[derive(Clone, CanonicalSerialize, CanonicalDeserialize)]
pub struct MSingle {
    pub paths: Vec<Path<MTConfig>>,
    pub v: Vec<Fr>,
    pub columns: Vec<Vec<Fr>>,
}

#[derive(Clone, CanonicalSerialize, CanonicalDeserialize)]
pub struct MProof {
    pub opening: MSingle,
    pub well_formedness: Option<Vec<Fr>>,
}

#[derive(Clone, Debug, CanonicalSerialize, CanonicalDeserialize)]
pub struct MMatrix {
    pub n: usize,
    pub m: usize,
    pub entries: Vec<Vec<Fr>>,
}

#[derive(Clone, Debug, CanonicalSerialize, CanonicalDeserialize)]
pub struct MState {
    pub mat: MMatrix,
    pub ext_mat: MMatrix,
    pub leaves: Vec<Vec<u8>>,
}

#[derive(Clone, CanonicalSerialize, CanonicalDeserialize)]
pub struct MSprs {
    pub n: usize,
    pub m: usize,
    pub d: usize,
    pub ind_ptr: Vec<usize>,
    pub col_ind: Vec<usize>,
    pub val: Vec<Fr>,
}

#[derive(Clone, CanonicalSerialize, CanonicalDeserialize)]
pub struct MBrakedown {
    pub sec_param: usize,
    pub alpha: (usize, usize),
    pub beta: (usize, usize),
    pub rho_inv: (usize, usize),
    pub base_len: usize,
    pub n: usize,
    pub m: usize,
    pub m_ext: usize,
    pub a_dims: Vec<(usize, usize, usize)>,
    pub b_dims: Vec<(usize, usize, usize)>,
    pub start: Vec<usize>,
    pub end: Vec<usize>,
    pub a_mats: Vec<MSprs>,
    pub b_mats: Vec<MSprs>,
    pub check_well_formedness: bool,
}

/// the leading fields of `LigeroPCParams` (the hash parameters that follow are unit values)
#[derive(Clone, Debug, CanonicalSerialize, CanonicalDeserialize)]
pub struct MLigeroParams {
    pub sec_param: usize,
    pub rho_inv: usize,
    pub check_well_formedness: bool,
}

/// Relative distance of the code from the parameters themselves (not from the library's `distance()`):
/// Reed-Solomon of rate 1/rho_inv: 1 - 1/rho_inv.
pub fn ligero_ref_distance<T: CanonicalSerialize>(ck: &T) -> Result<(usize, usize), String> {
    let m: MLigeroParams = mirror(ck)?;
    if m.rho_inv == 0 {
        return Err("rho_inv = 0".into());
    }
    Ok((m.rho_inv - 1, m.rho_inv))
}

/// Brakedown: beta / r with r = rho_inv the inverse rate (Golovnev et al., Claim 2).
pub fn brakedown_ref_distance<T: CanonicalSerialize>(ck: &T) -> Result<(usize, usize), String> {
    let m: MBrakedown = mirror(ck)?;
    Ok((m.rho_inv.1 * m.beta.0, m.rho_inv.0 * m.beta.1))
}

/// A verifier key with one parameter changed ("wf": the well-formedness flag flipped, "sec": another
/// security parameter), built through the canonical encoding.
pub fn tweak_ligero_vk<T: CanonicalSerialize + CanonicalDeserialize>(vk: &T, what: &str, seed: u64) -> Option<T> {
    let mut m: MLigeroParams = mirror(vk).ok()?;
    match what {
        "wf" => m.check_well_formedness = !m.check_well_formedness,
        "sec" => m.sec_param = other_sec(m.sec_param, seed),
        _ => return None,
    }
    mirror::<MLigeroParams, T>(&m).ok()
}
pub fn tweak_brakedown_vk<T: CanonicalSerialize + CanonicalDeserialize>(vk: &T, what: &str, seed: u64) -> Option<T> {
    let mut m: MBrakedown = mirror(vk).ok()?;
    match what {
        "wf" => m.check_well_formedness = !m.check_well_formedness,
        "sec" => m.sec_param = other_sec(m.sec_param, seed),
        _ => return None,
    }
    mirror::<MBrakedown, T>(&m).ok()
}
fn other_sec(sec: usize, seed: u64) -> usize {
    let d = 1 + (seed % 9) as usize;
    if seed % 2 == 0 || sec <= d {
        sec + d
    } else {
        sec - d
    }
}

/// Re-interpret a value as another type with the same canonical encoding.
pub fn mirror<A: CanonicalSerialize, B: CanonicalDeserialize>(a: &A) -> Result<B, String> {
    let bytes = ser(a);
    let b = B::deserialize_compressed(&bytes[..]).map_err(|e| format!("mirror decode: {e:?}"))?;
    Ok(b)
}

pub trait Lin: Scheme<F = Fr> {
    type Enc: LinearEncode<Fr, MTConfig, Self::P, ColHasher, LinCodePCParams = Ck<Self>>;
    fn sec_param(ck: &Ck<Self>) -> usize;
    fn distance(ck: &Ck<Self>) -> (usize, usize);
    /// the code's relative distance derived from the parameter fields by the harness
    fn ref_distance(ck: &Ck<Self>) -> Result<(usize, usize), String>;
    /// the polynomial whose coefficient / evaluation vector (as `poly_to_vec` lays it out) is `v`
    fn from_vec(v: Vec<Fr>, like: &Self::P) -> Self::P;
    /// verifier key with one parameter changed (see `tweak_ligero_vk`)
    fn tweak_vk(vk: &Vk<Self>, what: &str, seed: u64) -> Option<Vk<Self>>;
    /// the distance every harness-side computation uses (falls back to the library's report only if the
    /// parameters cannot be mirrored)
    fn dist(ck: &Ck<Self>) -> (usize, usize) {
        Self::ref_distance(ck).unwrap_or_else(|_| Self::distance(ck))
    }
    fn wf(ck: &Ck<Self>) -> bool;
    fn dims(ck: &Ck<Self>, len: usize) -> (usize, usize);
    fn point_vec(p: &Self::Pt) -> Vec<Fr>;
    /// committer and verifier key are the same type for these schemes
    fn vk_as_ck(vk: &Vk<Self>) -> &Ck<Self>;
}

macro_rules! lin_impl {
    ($s:ty, $enc:ty, $pv:expr, $rd:expr, $tw:expr, $fv:expr) => {
        impl Lin for $s {
            type Enc = $enc;
            fn sec_param(ck: &Ck<Self>) -> usize {
                ck.sec_param()
            }
            fn distance(ck: &Ck<Self>) -> (usize, usize) {
                ck.distance()
            }
            fn ref_distance(ck: &Ck<Self>) -> Result<(usize, usize), String> {
                ($rd)(ck)
            }
            fn from_vec(v: Vec<Fr>, like: &Self::P) -> Self::P {
                ($fv)(v, like)
            }
            fn tweak_vk(vk: &Vk<Self>, what: &str, seed: u64) -> Option<Vk<Self>> {
                ($tw)(vk, what, seed)
            }
            fn wf(ck: &Ck<Self>) -> bool {
                ck.check_well_formedness()
            }
            fn dims(ck: &Ck<Self>, len: usize) -> (usize, usize) {
                ck.compute_dimensions(len)
            }
            fn point_vec(p: &Self::Pt) -> Vec<Fr> {
                ($pv)(p)
            }
            fn vk_as_ck(vk: &Vk<Self>) -> &Ck<Self> {
                vk
            }
        }
    };
}

lin_impl!(ULigero, ULigeroEnc, |p: &Fr| vec![*p], ligero_ref_distance, tweak_ligero_vk, |v: Vec<Fr>, _l: &UniPoly| {
    use ark_poly::DenseUVPolynomial;
    UniPoly::from_coefficients_vec(v)
});
lin_impl!(MLigero, MLigeroEnc, |p: &Vec<Fr>| p.clone(), ligero_ref_distance, tweak_ligero_vk, |mut v: Vec<Fr>, l: &MLE| {
    v.resize(1usize << l.num_vars, Fr::zero());
    MLE::from_evaluations_vec(l.num_vars, v)
});
lin_impl!(Brakedown, BrakedownEnc, |p: &Vec<Fr>| p.clone(), brakedown_ref_distance, tweak_brakedown_vk, |mut v: Vec<Fr>, l: &MLE| {
    v.resize(1usize << l.num_vars, Fr::zero());
    MLE::from_evaluations_vec(l.num_vars, v)
});

pub fn encode<S: Lin>(ck: &Ck<S>, msg: &[Fr]) -> Out<Vec<Fr>> {
    crate::util::guard(|| <S::Enc as LinearEncode<Fr, MTConfig, S::P, ColHasher>>::encode(msg, ck))
}

pub fn tensor<S: Lin>(z: &S::Pt, n_cols: usize, n_rows: usize) -> (Vec<Fr>, Vec<Fr>) {
    <S::Enc as LinearEncode<Fr, MTConfig, S::P, ColHasher>>::tensor(z, n_cols, n_rows)
}

pub fn poly_vec<S: Lin>(p: &S::P) -> Vec<Fr> {
    <S::Enc as LinearEncode<Fr, MTConfig, S::P, ColHasher>>::poly_to_vec(p)
}

pub fn inner(a: &[Fr], b: &[Fr]) -> Fr {
    a.iter().zip(b).fold(Fr::zero(), |acc, (x, y)| acc + *x * y)
}

// ------------------------------------------------------------------------------------------------
// reference Merkle tree (identity leaf hash, SHA-256 two-to-one, byte digest converter)
// ------------------------------------------------------------------------------------------------

pub fn col_hash(col: &[Fr]) -> Vec<u8> {
    use blake2::Blake2s256;
    let v: Vec<Fr> = col.to_vec();
    let mut buf = Vec::new();
    v.serialize_compressed(&mut buf).unwrap();
    let mut d = Blake2s256::new();
    digest::Digest::update(&mut d, &buf);
    digest::Digest::finalize(d).to_vec()
}

fn ser_bytes(d: &[u8]) -> Vec<u8> {
    // canonical (uncompressed) serialization of a Vec<u8>: 8-byte little-endian length, then the bytes
    let mut v = (d.len() as u64).to_le_bytes().to_vec();
    v.extend_from_slice(d);
    v
}

/// All levels of the reference tree, bottom inner level first; `levels.last()` is `[root]`.
pub fn ref_tree(leaf_digests: &[Vec<u8>]) -> Vec<Vec<Vec<u8>>> {
    let n = leaf_digests.len().next_power_of_two().max(2);
    let mut leaves = leaf_digests.to_vec();
    leaves.resize(n, Vec::new());
    let mut levels = Vec::new();
    let mut cur: Vec<Vec<u8>> = (0..n / 2)
        .map(|i| {
            let mut h = Sha256::new();
            h.update(ser_bytes(&leaves[2 * i]));
            h.update(ser_bytes(&leaves[2 * i + 1]));
            h.finalize().to_vec()
        })
        .collect();
    levels.push(cur.clone());
    while cur.len() > 1 {
        cur = (0..cur.len() / 2)
            .map(|i| {
                let mut h = Sha256::new();
                h.update(&cur[2 * i]);
                h.update(&cur[2 * i + 1]);
                h.finalize().to_vec()
            })
            .collect();
        levels.push(cur.clone());
    }
    levels
}

pub fn ref_root(leaf_digests: &[Vec<u8>]) -> Vec<u8> {
    ref_tree(leaf_digests).last().unwrap()[0].clone()
}

/// Reference authentication of a leaf digest under `root` with the library's `Path` layout
/// (`auth_path` ordered from the top of the tree down).
pub fn ref_path_ok(path: &Path<MTConfig>, root: &[u8], leaf: &[u8]) -> bool {
    let idx = path.leaf_index;
    let (l, r) = if idx & 1 == 0 {
        (leaf.to_vec(), path.leaf_sibling_hash.clone())
    } else {
        (path.leaf_sibling_hash.clone(), leaf.to_vec())
    };
    let mut h = Sha256::new();
    h.update(ser_bytes(&l));
    h.update(ser_bytes(&r));
    let mut cur = h.finalize().to_vec();
    let mut i = idx >> 1;
    for lvl in (0..path.auth_path.len()).rev() {
        let sib = &path.auth_path[lvl];
        let mut h = Sha256::new();
        if i & 1 == 0 {
            h.update(&cur);
            h.update(sib);
        } else {
            h.update(sib);
            h.update(&cur);
        }
        cur = h.finalize().to_vec();
        i >>= 1;
    }
    cur == root
}

/// The harness's own encoded matrix: coefficients row-major into n_rows x n_cols, each row encoded.
pub fn ref_matrices<S: Lin>(
    ck: &Ck<S>,
    p: &S::P,
) -> Result<(usize, usize, Vec<Vec<Fr>>, Vec<Vec<Fr>>), String> {
    let mut coeffs = poly_vec::<S>(p);
    let (n_rows, n_cols) = crate::util::guard_plain(|| S::dims(ck, coeffs.len())).need("compute_dimensions")?;
    if coeffs.len() > n_rows * n_cols {
        return Err("polynomial larger than the matrix".into());
    }
    coeffs.resize(n_rows * n_cols, Fr::zero());
    let rows: Vec<Vec<Fr>> = (0..n_rows)
        .map(|r| coeffs[r * n_cols..(r + 1) * n_cols].to_vec())
        .collect();
    let mut ext = Vec::new();
    for r in &rows {
        ext.push(encode::<S>(ck, r).need("encode")?);
    }
    Ok((n_rows, n_cols, rows, ext))
}

/// A non-zero message x (length n_cols) whose encoding vanishes on the first `m` positions, found by
/// Gaussian elimination over the encodings of the unit vectors (the code is linear); None if only x = 0 does.
pub fn message_vanishing_on_prefix<S: Lin>(ck: &Ck<S>, n_cols: usize, m: usize, seed: u64) -> Option<Vec<Fr>> {
    let pos: Vec<usize> = (0..m).collect();
    message_vanishing_on::<S>(ck, n_cols, &pos, seed)
}

/// the same for an arbitrary set of codeword positions
pub fn message_vanishing_on<S: Lin>(ck: &Ck<S>, n_cols: usize, positions: &[usize], seed: u64) -> Option<Vec<Fr>> {
    use ark_ff::Field;
    let mut pos: Vec<usize> = positions.to_vec();
    pos.sort();
    pos.dedup();
    let m = pos.len();
    // a[j][i] = E(e_i)[pos_j]: solve a x = 0
    let mut a = vec![vec![Fr::zero(); n_cols]; m];
    for i in 0..n_cols {
        let mut e = vec![Fr::zero(); n_cols];
        e[i] = Fr::from(1u64);
        let Out::Ok(w) = encode::<S>(ck, &e) else { return None };
        if pos.iter().any(|p| *p >= w.len()) {
            return None;
        }
        for (j, p) in pos.iter().enumerate() {
            a[j][i] = w[*p];
        }
    }
    // row-reduce
    let mut pivot_col_of_row: Vec<usize> = Vec::new();
    let mut r = 0;
    for c in 0..n_cols {
        if r == m {
            break;
        }
        let Some(p) = (r..m).find(|k| !a[*k][c].is_zero()) else { continue };
        a.swap(r, p);
        let inv = a[r][c].inverse().unwrap();
        for x in a[r].iter_mut() {
            *x *= inv;
        }
        for k in 0..m {
            if k != r && !a[k][c].is_zero() {
                let f = a[k][c];
                let (rr, kk) = if k < r { let (lo, hi) = a.split_at_mut(r); (&hi[0], &mut lo[k]) } else { let (lo, hi) = a.split_at_mut(k); (&lo[r], &mut hi[0]) };
                for (y, x) in kk.iter_mut().zip(rr.iter()) {
                    *y -= f * x;
                }
            }
        }
        pivot_col_of_row.push(c);
        r += 1;
    }
    let free: Vec<usize> = (0..n_cols).filter(|c| !pivot_col_of_row.contains(c)).collect();
    if free.is_empty() {
        return None;
    }
    // one free variable set to a random non-zero value, the others to zero
    let fc = free[(seed % free.len() as u64) as usize];
    let mut g = crate::util::rng(seed);
    let mut val = <Fr as ark_ff::UniformRand>::rand(&mut g);
    if val.is_zero() {
        val = Fr::from(1u64);
    }
    let mut x = vec![Fr::zero(); n_cols];
    x[fc] = val;
    for (row, pc) in pivot_col_of_row.iter().enumerate() {
        x[*pc] = -a[row][fc] * val;
    }
    Some(x)
}

pub fn columns_of(ext: &[Vec<Fr>]) -> Vec<Vec<Fr>> {
    let m = ext[0].len();
    (0..m).map(|j| ext.iter().map(|r| r[j]).collect()).collect()
}

// ------------------------------------------------------------------------------------------------
// exact soundness bound:  2 (1 - d/2)^t + n/|F| <= 2^-lambda
// ------------------------------------------------------------------------------------------------

pub fn field_order<F: PrimeField>() -> BigUint {
    BigUint::from_bytes_le(&F::MODULUS.to_bytes_le())
}

/// Does the bound hold at `t`?  `den` is the denominator used for the `n/den` term.
pub fn bound_holds(lambda: usize, d: (usize, usize), n: u128, t: usize, den: &BigUint) -> bool {
    // 1 - d/2 = (2 d1 - d0) / (2 d1) = a / b
    let a = BigUint::from(2 * d.1 as u128 - d.0 as u128);
    let b = BigUint::from(2 * d.1 as u128);
    let at = a.pow(t as u32);
    let bt = b.pow(t as u32);
    let two_l = BigUint::one() << lambda;
    // 2 a^t / b^t + n / den <= 1 / 2^l   <=>   2 a^t den 2^l + n b^t 2^l <= b^t den
    let lhs = (BigUint::from(2u8) * &at * den * &two_l) + (BigUint::from(n) * &bt * &two_l);
    let rhs = &bt * den;
    lhs <= rhs
}

/// Smallest t for which the bound holds (before capping), or None when no t can satisfy it
/// (n/den >= 2^-lambda, or zero distance).
pub fn exact_t(lambda: usize, d: (usize, usize), n: u128, den: &BigUint) -> Option<usize> {
    if d.0 == 0 || d.1 == 0 || d.0 > 2 * d.1 {
        return None;
    }
    // residual must be strictly below 2^-lambda for any t to exist
    let two_l = BigUint::one() << lambda;
    if BigUint::from(n) * &two_l >= *den {
        return None;
    }
    let mut hi = 1usize;
    while !bound_holds(lambda, d, n, hi, den) {
        hi *= 2;
        if hi > 1 << 22 {
            return None;
        }
    }
    let mut lo = hi / 2; // bound fails at lo (or lo == 0)
    if lo == 0 {
        if bound_holds(lambda, d, n, 0, den) {
            return Some(0);
        }
    }
    while hi - lo > 1 {
        let mid = (lo + hi) / 2;
        if bound_holds(lambda, d, n, mid, den) {
            hi = mid;
        } else {
            lo = mid;
        }
    }
    Some(hi)
}

/// t as the property states it: minimal for the bound with |F|, capped at n.
pub fn expected_t<F: PrimeField>(lambda: usize, d: (usize, usize), n: usize) -> Option<usize> {
    exact_t(lambda, d, n as u128, &field_order::<F>()).map(|t| t.min(n))
}

/// t with the library's approximation of the field size (2^MODULUS_BIT_SIZE)
pub fn approx_t<F: PrimeField>(lambda: usize, d: (usize, usize), n: usize) -> Option<usize> {
    let den = BigUint::one() << (F::MODULUS_BIT_SIZE as usize);
    exact_t(lambda, d, n as u128, &den).map(|t| t.min(n))
}

// ------------------------------------------------------------------------------------------------
// Fiat-Shamir replay and reference verifier
// ------------------------------------------------------------------------------------------------

/// ceil(bits(n) / 8) bytes are squeezed, re-absorbed and reduced mod n, t times.
pub fn ref_indices(n: usize, t: usize, sp: &mut PoseidonSponge<Fr>) -> Vec<usize> {
    let bits = (usize::BITS - n.leading_zeros()) as usize;
    let nbytes = (bits + 7) / 8;
    let mut out = Vec::new();
    for _ in 0..t {
        let bytes = sp.squeeze_bytes(nbytes);
        sp.absorb(&bytes);
        let mut acc: u128 = 0;
        for b in &bytes {
            acc = (acc << 8) + *b as u128;
        }
        out.push((acc % n as u128) as usize);
    }
    out
}

#[derive(Clone, Debug, PartialEq, Eq)]
pub enum RefDecision {
    Accept,
    Reject(String),
}

impl RefDecision {
    pub fn accepted(&self) -> bool {
        matches!(self, RefDecision::Accept)
    }
}

/// Independent implementation of the published verification relation for one `check` call
/// (several commitments at one point), advancing `sp` exactly as the scheme's transcript does.
pub fn ref_check<S: Lin>(
    vk: &Vk<S>,
    comms: &[MComm],
    point: &S::Pt,
    values: &[Fr],
    proofs: &[MProof],
    sp: &mut PoseidonSponge<Fr>,
) -> RefDecision {
    let vk = S::vk_as_ck(vk);
    if comms.len() != values.len() {
        // the library zips commitments with values; a relation over mismatched lists is undefined,
        // callers never produce this shape
        return RefDecision::Reject("values/commitments length mismatch".into());
    }
    if proofs.len() < comms.len() {
        return RefDecision::Reject("fewer proofs than commitments".into());
    }
    let sec = S::sec_param(vk);
    let dist = S::dist(vk);
    let wf = S::wf(vk);
    for (i, (c, value)) in comms.iter().zip(values).enumerate() {
        let proof = &proofs[i];
        let (n_rows, n_cols, n_ext) = (c.metadata.n_rows, c.metadata.n_cols, c.metadata.n_ext_cols);
        let Some(t) = expected_t::<Fr>(sec, dist, n_ext) else {
            return RefDecision::Reject("unusable parameters".into());
        };
        if proof.opening.v.len() != n_cols {
            return RefDecision::Reject("|v| != n_cols".into());
        }
        sp.absorb(&ser(&c.root));
        let mut r_vec = None;
        if wf {
            let Some(vwf) = &proof.well_formedness else {
                return RefDecision::Reject("well-formedness vector missing".into());
            };
            if vwf.len() != n_cols {
                return RefDecision::Reject("|v_wf| != n_cols".into());
            }
            let r = sp.squeeze_field_elements::<Fr>(n_rows);
            sp.absorb(vwf);
            r_vec = Some(r);
        }
        sp.absorb(&S::point_vec(point));
        sp.absorb(&proof.opening.v);
        let idx = ref_indices(n_ext, t, sp);
        if proof.opening.columns.len() < t || proof.opening.paths.len() < t {
            return RefDecision::Reject("fewer than t columns/paths".into());
        }
        for (j, q) in idx.iter().enumerate() {
            let path = &proof.opening.paths[j];
            if path.leaf_index != *q {
                return RefDecision::Reject(format!("leaf index {} != q_{j}", path.leaf_index));
            }
            let leaf = col_hash(&proof.opening.columns[j]);
            if !ref_path_ok(path, &c.root, &leaf) {
                return RefDecision::Reject(format!("Merkle path {j} does not authenticate"));
            }
        }
        let w = match crate::util::guard(|| {
            <S::Enc as LinearEncode<Fr, MTConfig, S::P, ColHasher>>::encode(&proof.opening.v, vk)
        }) {
            Out::Ok(w) => w,
            _ => return RefDecision::Reject("E(v) undefined".into()),
        };
        let (a, b) = <S::Enc as LinearEncode<Fr, MTConfig, S::P, ColHasher>>::tensor(
            point, n_cols, n_rows,
        );
        let w_wf = if let (Some(_), Some(vwf)) = (&r_vec, &proof.well_formedness) {
            match crate::util::guard(|| {
                <S::Enc as LinearEncode<Fr, MTConfig, S::P, ColHasher>>::encode(vwf, vk)
            }) {
                Out::Ok(w) => Some(w),
                _ => return RefDecision::Reject("E(v_wf) undefined".into()),
            }
        } else {
            None
        };
        for (j, q) in idx.iter().enumerate() {
            let col = &proof.opening.columns[j];
            if col.len() != n_rows {
                return RefDecision::Reject("column of the wrong height".into());
            }
            if let (Some(r), Some(w_wf)) = (&r_vec, &w_wf) {
                if inner(r, col) != w_wf[*q] {
                    return RefDecision::Reject(format!("<r, col_{j}> != E(v_wf)[q]"));
                }
            }
            if inner(&b, col) != w[*q] {
                return RefDecision::Reject(format!("<b, col_{j}> != E(v)[q]"));
            }
        }
        if inner(&proof.opening.v, &a) != *value {
            return RefDecision::Reject("<v, a> != value".into());
        }
    }
    RefDecision::Accept
}

/// The library-format authentication path of leaf `i` in the reference tree over `leaf_digests`.
pub fn ref_path(leaf_digests: &[Vec<u8>], i: usize) -> Path<MTConfig> {
    let n = leaf_digests.len().next_power_of_two().max(2);
    let mut leaves = leaf_digests.to_vec();
    leaves.resize(n, Vec::new());
    let levels = ref_tree(leaf_digests);
    let mut auth = Vec::new();
    // levels[0] is the bottom inner level, levels.last() the root; the path lists siblings top-down
    for l in (0..levels.len() - 1).rev() {
        auth.push(levels[l][(i >> (l + 1)) ^ 1].clone());
    }
    Path {
        leaf_sibling_hash: leaves[i ^ 1].clone(),
        auth_path: auth,
        leaf_index: i,
    }
}

/// An emulation of the scheme's prover over the harness's own matrices, with the opened vectors under
/// the caller's control: `v_over[k]` / `wf_over[k]` replace the honest `b.M` / `r.M` of the k-th
/// polynomial (Some(None) for wf = omit the vector). Columns and paths are the authentic ones at the
/// Fiat-Shamir positions the *resulting* transcript dictates. With no overrides this is the honest proof.
pub fn emulate_prover<S: Lin>(
    ck: &Ck<S>,
    polys: &[&S::P],
    point: &S::Pt,
    sp: &mut PoseidonSponge<Fr>,
    v_over: &[Option<Vec<Fr>>],
    wf_over: &[Option<Option<Vec<Fr>>>],
) -> Result<Vec<MProof>, String> {
    let mut out = Vec::new();
    for (k, p) in polys.iter().enumerate() {
        let (n_rows, n_cols, rows, ext) = ref_matrices::<S>(ck, p)?;
        let cols = columns_of(&ext);
        let n_ext = cols.len();
        let leaves: Vec<Vec<u8>> = cols.iter().map(|c| col_hash(c)).collect();
        let root = ref_root(&leaves);
        let t = expected_t::<Fr>(S::sec_param(ck), S::dist(ck), n_ext).ok_or("unusable parameters")?;
        let (_a, b) = tensor::<S>(point, n_cols, n_rows);
        sp.absorb(&ser(&root));
        let row_comb = |coef: &[Fr]| -> Vec<Fr> {
            (0..n_cols)
                .map(|j| (0..n_rows).fold(Fr::zero(), |acc, i| acc + coef[i] * rows[i][j]))
                .collect()
        };
        let mut wf_out = None;
        if S::wf(ck) {
            let r = sp.squeeze_field_elements::<Fr>(n_rows);
            let honest = row_comb(&r);
            let chosen = match wf_over.get(k).cloned().flatten() {
                Some(x) => x,
                None => Some(honest),
            };
            if let Some(w) = &chosen {
                sp.absorb(w);
            }
            wf_out = chosen;
        }
        sp.absorb(&S::point_vec(point));
        let v = match v_over.get(k).cloned().flatten() {
            Some(x) => x,
            None => row_comb(&b),
        };
        sp.absorb(&v);
        let idx = ref_indices(n_ext, t, sp);
        let columns: Vec<Vec<Fr>> = idx.iter().map(|q| cols[*q].clone()).collect();
        let paths: Vec<Path<MTConfig>> = idx.iter().map(|q| ref_path(&leaves, *q)).collect();
        out.push(MProof {
            opening: MSingle { paths, v, columns },
            well_formedness: wf_out,
        });
    }
    Ok(out)
}

pub fn proofs_mirror<S: Scheme>(proof: &Proof<S>) -> Result<Vec<MProof>, String> {
    let bytes = S::proof_bytes(proof, true);
    Vec::<MProof>::deserialize_compressed(&bytes[..]).map_err(|e| format!("proof mirror decode: {e:?}"))
}

pub fn proofs_unmirror<S: Scheme>(m: &Vec<MProof>) -> Result<Proof<S>, String> {
    S::proof_from_bytes(&ser(m), true, true)
}

/// See `Scheme::moved_point_pass_log2`.
pub fn moved_point_pass_log2<S: Lin>(
    keys: &Keys<S>,
    polys: &[&S::P],
    proof: &Proof<S>,
    z_new: &S::Pt,
) -> Option<f64> {
    let proofs: Vec<MProof> = proofs_mirror::<S>(proof).ok()?;
    let mut total = 0.0f64;
    for (p, pr) in polys.iter().zip(&proofs) {
        let (n_rows, n_cols, _rows, ext) = ref_matrices::<S>(&keys.ck, p).ok()?;
        let cols = columns_of(&ext);
        let n_ext = cols.len();
        let t = expected_t::<Fr>(S::sec_param(&keys.ck), S::dist(&keys.ck), n_ext)?;
        let (_a, b) = tensor::<S>(z_new, n_cols, n_rows);
        let w = encode::<S>(&keys.ck, &pr.opening.v).ok()?;
        let good = (0..n_ext).filter(|j| inner(&b, &cols[*j]) == w[*j]).count();
        total += log2_pass_prob(good, n_ext, t);
    }
    Some(total)
}

pub fn transcript_collision_log2<S: Lin>(keys: &Keys<S>, first: &LabeledCommitment<Comm<S>>) -> Option<f64> {
    let mc = comm_mirror::<S>(first).ok()?;
    let n = mc.metadata.n_ext_cols;
    let t = expected_t::<Fr>(S::sec_param(&keys.ck), S::dist(&keys.ck), n)?;
    Some(-(t as f64) * (n as f64).log2())
}

pub fn comm_mirror<S: Scheme>(c: &LabeledCommitment<Comm<S>>) -> Result<MComm, String> {
    mirror::<Comm<S>, MComm>(c.commitment())
}

/// log2 of the probability (over the Fiat-Shamir indices) that `t` uniformly sampled positions all
/// fall into a set of `good` out of `n` positions. Returns 0.0 when good == n.
pub fn log2_pass_prob(good: usize, n: usize, t: usize) -> f64 {
    if good >= n {
        0.0
    } else if good == 0 {
        f64::NEG_INFINITY
    } else {
        (t as f64) * ((good as f64) / (n as f64)).log2()
    }
}

#[allow(dead_code)]
fn _bi(_: <Fr as PrimeField>::BigInt) -> bool {
    <Fr as PrimeField>::BigInt::from(1u64).is_odd() && Fr::ONE.is_one()
}
use ark_ff::One;
