#![no_main]
//! Coverage-guided exploration of the C03 attack catalogue: bytes -> (scheme, scenario choices, attack
//! mode, mutation program); the oracle "a false claim is not accepted" sits inside the target.
//! A property failure whose signature is not a recorded known finding writes a replay JSON and aborts.

use arbitrary::Unstructured;
use libfuzzer_sys::fuzz_target;
use pcverif::attacks::OpRaw;
use pcverif::engine::{CaseCtx, KnownFindings};
use pcverif::model::{KeyRaw, LabelRaw, PolyRaw, Scn};
use pcverif::props::c03::{check_trait, Case};
use pcverif::schemes::{Brakedown, Hyrax, Ipa, MLigero, Marlin, Pst13, Sonic, ULigero};
use pcverif::util::FRaw;
use std::sync::OnceLock;

fn fraw(u: &mut Unstructured) -> arbitrary::Result<FRaw> {
    Ok(match u.int_in_range(0u8..=4)? {
        0 => FRaw::Zero,
        1 => FRaw::One,
        2 => FRaw::MinusOne,
        3 => FRaw::Small(u.int_in_range(0u8..=20)?),
        _ => FRaw::Rand(u.arbitrary()?),
    })
}

fn decode(u: &mut Unstructured) -> arbitrary::Result<(u8, Case)> {
    let scheme = u.int_in_range(0u8..=7)?;
    let nb = u.int_in_range(0usize..=4)?;
    let key = KeyRaw {
        a: u.arbitrary()?,
        b: u.arbitrary()?,
        c: u.arbitrary()?,
        bounds: if u.arbitrary()? { None } else { Some((0..nb).map(|_| u.arbitrary()).collect::<arbitrary::Result<Vec<u16>>>()?) },
        hiding: u.arbitrary()?,
        seed: u.int_in_range(0u8..=3)?,
    };
    let np = u.int_in_range(1usize..=3)?;
    let mut polys = Vec::new();
    for _ in 0..np {
        polys.push(PolyRaw { shape: u.int_in_range(0u8..=7)?, deg: u.arbitrary()?, bound: u.arbitrary()?, hiding: u.arbitrary()?, seed: u.arbitrary()? });
    }
    let npt = u.int_in_range(1usize..=2)?;
    let points = (0..npt).map(|_| fraw(u)).collect::<arbitrary::Result<Vec<_>>>()?;
    let nl = u.int_in_range(1usize..=3)?;
    let labels = (0..nl).map(|_| Ok(LabelRaw { value: u.arbitrary()?, subset: u.arbitrary()? })).collect::<arbitrary::Result<Vec<_>>>()?;
    let scn = Scn { key, polys, points, labels, perm_p: u.arbitrary()?, perm_v: u.arbitrary()?, names: u.arbitrary()?, seeds: [u.arbitrary()?, u.arbitrary()?, u.arbitrary()?], pre: if u.arbitrary()? { 0 } else { u.arbitrary()? } };
    let mode = u.int_in_range(0u8..=6)?;
    let nops = u.int_in_range(1usize..=8)?;
    let ops = (0..nops).map(|_| Ok(OpRaw { op: u.arbitrary()?, arg: u.arbitrary()?, seed: u.arbitrary()? })).collect::<arbitrary::Result<Vec<_>>>()?;
    Ok((scheme, Case { scn, mode, ops, sel: u.arbitrary()? }))
}

static KNOWN: OnceLock<KnownFindings> = OnceLock::new();

fuzz_target!(|data: &[u8]| {
    static INIT: std::sync::Once = std::sync::Once::new();
    INIT.call_once(|| {
        // library aborts are caught by the harness; keep libFuzzer's output readable
        std::panic::set_hook(Box::new(|_| {}));
    });
    let mut u = Unstructured::new(data);
    let Ok((scheme, case)) = decode(&mut u) else { return };
    let known = KNOWN.get_or_init(KnownFindings::load);
    let mut ctx = CaseCtx::new(known);
    let (name, r) = match scheme {
        0 => ("uligero", check_trait::<ULigero>(&case, &mut ctx)),
        1 => ("mligero", check_trait::<MLigero>(&case, &mut ctx)),
        2 => ("brakedown", check_trait::<Brakedown>(&case, &mut ctx)),
        3 => ("hyrax", check_trait::<Hyrax>(&case, &mut ctx)),
        4 => ("ipa", check_trait::<Ipa>(&case, &mut ctx)),
        5 => ("pst13", check_trait::<Pst13>(&case, &mut ctx)),
        6 => ("marlin", check_trait::<Marlin>(&case, &mut ctx)),
        _ => ("sonic", check_trait::<Sonic>(&case, &mut ctx)),
    };
    if let Err(f) = r {
        let body = serde_json::json!({
            "property": "C03",
            "unit": format!("C03:{name}:catalogue"),
            "signature": f.sig,
            "message": f.msg,
            "tier": "quick",
            "found_by": "libFuzzer target proofshape",
            "case": serde_json::to_value(&case).unwrap(),
        });
        let text = serde_json::to_string_pretty(&body).unwrap();
        let h = pcverif::util::fnv64(text.as_bytes());
        let dir = "/verif/replays/C03";
        let _ = std::fs::create_dir_all(dir);
        let path = format!("{dir}/fuzz-{name}-{h:016x}.json");
        let _ = std::fs::write(&path, text);
        println!("VIOLATION property=C03 replay={path}");
        println!("  unit=C03:{name}:catalogue {} :: {}", f.sig, f.msg);
        std::process::abort();
    }
});
