#!/usr/bin/env python3
"""Regenerates /verif/MANIFEST.json from the table below (keeps the file valid at all times)."""
import json, subprocess, sys

ALL = ["C%02d" % i for i in range(1, 20)]

# id -> (technique, level text, level note, design ref)
CLAIMED = {
 "C01": ("property-based testing (proptest): generated scenarios over all 11 schemes, honest flow must be accepted",
         "Exploration by generated-input search: fixed-seed proptest scenarios (key shapes, polynomial shapes, degree/hiding bounds, aliased query sets, permutations, sponge pre-states) drive the real library through setup/trim/commit/open/check and batch_open/batch_check for the 8 trait schemes, KZG10, multilinear PST and both streaming-KZG provers; any Err/abort/false on an in-domain input is a violation, shrunk to a replay file. It cannot prove absence of failing inputs outside the explored sizes.",
         "Trusted: ark-poly evaluate(), the scenario interpreter's notion of 'in domain' (derived from the trait/docs: bounds from the enforced set, hiding <= supported hiding, one point per point label).",
         "DESIGN.md §4 C01"),
 "C02": ("property-based testing (proptest): statement perturbations (value / point / commitment) of accepted honest transcripts must be rejected",
         "Exploration: every accepted honest transcript generated as for C01 is perturbed at a generated position - claimed value + delta, a point z' chosen so that the perturbed statement is false, a commitment to q != p - in single check and batch_check of all 8 trait schemes, KZG10::{check,batch_check}, MultilinearPC::check and streaming verify/verify_multi_points; acceptance (Ok(true)) is a violation. Sensitivity confirmed by re-introducing the Hyrax 'values ignored' defect (caught within the quick tier).",
         "Perturbed statements are false by construction; for the code-based schemes a moved point is only asserted when the chance acceptance probability computed from the harness's own encoded matrix is <= 2^-40 (toy sizes have a non-negligible soundness error of their own).",
         "DESIGN.md §4 C02"),
 "C03": ("property-based testing (proptest): adversarial-proof catalogue as generated mutation programs, foreign prover, replays, reshaped batch lists, adaptive prover emulation",
         "Exploration of the attack catalogue: every case is an accepted honest transcript plus a generated attack - a program of 1-3 scheme-specific proof mutations (through mirror structs for the crate-private linear-code proof types), the library prover run on (q, state_q) against commitment(p), a proof replayed from another point or polynomial, a reshaped batch proof list, or (code-based schemes) an emulated adaptive prover that recomputes authentic columns/paths for attacker-chosen opened vectors - always with a false claimed value; acceptance is a violation. Sensitivity confirmed against the reverted fixes F2-F6 and the sub-agent change seeded/C03 (all caught in the quick tier).",
         "Covers the catalogue and programs over it, not arbitrary adversaries. Vector mutations of the code-based schemes that keep honest columns are only asserted when the scheme's own chance-acceptance probability agreement^t is <= 2^-40.",
         "DESIGN.md §4 C03"),
 "C04": ("property-based testing (proptest): admission grid around each bound, mislabelled bounds, degree-bound part surgery",
         "Exploration over generated keys (enforced sets unsorted/duplicated/absent) for Marlin, Sonic and IPA: commit/open must refuse exactly the inadmissible (degree, bound) pairs and serve the admissible boundary ones; a commitment made under d' and presented under d, or whose degree-bound part is dropped/swapped/replaced, must not verify (honest proof and relabelled library prover).",
         "Points are admissible by construction for the point-identity schemes (p(z) != 0; IPA additionally z != 0, z^(d-d') != 1); enforced sets stay within the documented trim domain.",
         "DESIGN.md §4 C04"),
 "C05": ("property-based testing (proptest): differential batch_check vs threaded single checks vs ground truth, with cancelling and challenge-weighted error vectors and proof-list permutations",
         "Exploration: for generated multi-label batches the batch decision must (a) not depend on the verifier RNG seed, (b) equal the AND of the scheme's own per-label checks on one threaded sponge, (c) equal the ground truth (all claims true and honest proof list). Error vectors include plain cancelling pairs inside a label and across labels and challenge-weighted cancellation across labels sharing a point value (challenges replayed by the harness).",
         "Verifier randomness and batching challenges are honest randomness; weighted cancellation inside one label is accepted by design (the caller must bind values into the sponge) and is not generated.",
         "DESIGN.md §4 C05"),
 "C06": ("property-based testing (proptest): generated linear combinations (zero/negative/repeated/constant terms, shared labels and point values), honest acceptance plus value/coefficient/constant/transmitted-evaluation perturbations, degree-bound policy",
         "Exploration: generated LC lists and LC query sets over committed polynomials; open_combinations/check_combinations must accept the true LC values and reject a changed claimed value, verifier-side coefficient, verifier-side constant or sum-preserving change of transmitted evaluations; degree-bounded polynomials: [1*p_b] verifies and still enforces the bound, every bound-dropping combination is refused by both entry points.",
         "LC values are computed from ark-poly evaluations; coefficient perturbations are applied to polynomials that do not vanish at the queried point so the perturbed statement is false.",
         "DESIGN.md §4 C06"),
 "C07": ("property-based testing (proptest): structural identities between commitment, returned randomness and public hiding generators; seed-pair metamorphic relations; sponge-replayed random_v",
         "Exploration: for hiding scenarios of KZG10, Marlin, Sonic, PST13, IPA and Hyrax the harness recomputes the non-hiding commitment naively from the public key and checks that the difference to the library's commitment is exactly the blinding term formed from the returned state and the published hiding generators, with the required number of non-zero distinct coefficients per part; equal/different RNG seeds must reproduce/change commitments, states and proofs; repeated commitments are pairwise distinct; hiding without RNG is refused; non-hiding commitments are key-defined and carry no randomness; random_v equals the challenge-weighted blinding evaluation (challenges replayed independently).",
         "Randomness quality is checked structurally, not statistically. Trusted: ark-ec group arithmetic.",
         "DESIGN.md §4 C07"),
 "C08": ("property-based testing (proptest): naive multi-scalar-sum oracle over published key elements, additivity/metamorphic relations, reference Merkle root recomputation",
         "Exploration: non-hiding commitments of every group-based scheme are compared part by part with plain sums of key elements (no MSM, no leading-zero skipping, explicit shift windows); additivity of commitments and of commitment randomness (through the schemes' own AddAssign) is checked against the naive commitment of a*p+b*q; hash-based commitments are compared with a by-hand Merkle root over the harness's own row-encoded matrix, including metadata, prover state, determinism and sensitivity.",
         "Trusted: ark-ec group arithmetic, the public LinearEncode::encode used for rows (its linearity and length are checked in C13), SHA-256/Blake2s implementations.",
         "DESIGN.md §4 C08"),
 "C09": ("property-based testing (proptest): pairing/group identities over every published key element, differential trim-vs-SRS comparison, independent hash-to-curve re-derivation, boundary requests",
         "Exploration over generated key requests: every SRS power is tied to its predecessor by a pairing identity (random-combination check plus per-index localisation), trimmed keys are compared element by element with the SRS slices they must equal (prefixes, shifted windows, one shift element per sorted de-duplicated bound), degree reports are probed at supported and supported+1, keys trimmed twice interoperate, out-of-range requests must be refused; IPA/Hyrax generators are re-derived by the harness's own hash-to-curve loop and checked for validity and distinctness; Brakedown matrices are read through a mirror of the parameter serialization; multilinear-PST tables are tied to g_mask by pairings.",
         "Pairing identities show all powers belong to one trapdoor, not that it is random. Marlin accepting enforced bounds above supported_degree (outside the documented trim domain) is not asserted either way.",
         "DESIGN.md §4 C09"),
 "C15": ("exhaustive enumeration of the 6x6 parameter grid with pairing identities + property-based openings of mixed-monomial polynomials",
         "The (num_vars, max_degree) grid 1..=6 x 1..=6 is enumerated completely on every run: key set equals the harness's own enumeration of exponent vectors, every element is tied to its divisor monomial by a pairing identity for every variable, trim is checked for every supported degree; generated mixed-monomial polynomials (with and without hiding) must open and verify (C01 oracle) and reject perturbed statements (C02 oracle).",
         "Grid is exhaustive for n, d <= 6 only; openings are explored, not exhaustive.",
         "DESIGN.md §4 C15"),
 "C12": ("property-based testing (proptest): serialization round-trip, size and cross-mode oracles over every artefact of generated transcripts, prefix-truncation fault injection, decision equality with deserialized inputs",
         "Exploration: each artefact produced along generated transcripts goes through Compress x Validate (4 modes): ser/deser/ser identity, serialized_size equals bytes written, cross-mode agreement, all (or 36-192 sampled) proper prefixes must be Err rather than Ok or abort, and verification with all-deserialized inputs must agree with the originals on an honest and a tampered claim. Sensitivity: catches the sub-agent change seeded/C12 (Sonic verifier-key validity off-by-one).",
         "Truncation is checked on prefixes (as the property says), not arbitrary corruption; streaming-KZG types are not serializable.",
         "DESIGN.md §4 C12"),
 "C13": ("exact big-integer oracle for the soundness bound + enumeration of all (lambda, rate) thresholds through the public compute_dimensions + property-based inspection of generated proofs (mirror structs, reference verifier)",
         "All 256 x 5 (lambda, rate) points are enumerated on every run: the exact t (big-integer evaluation of the bound at t and t-1) predicts the polynomial lengths at which compute_dimensions must change its row count, so a t off by one is visible through the public API at lengths up to 2^41 without allocating anything; generated honest proofs of the three code-based schemes are deserialized into mirror structs and must contain exactly t columns/paths at the transcript-derived positions (checked by an independent reference verifier); the row encoder must be linear with the declared output length. Found and led to the repair of F14 (field size approximated by 2^bits).",
         "calculate_t is only reachable through compute_dimensions and proofs; Brakedown's t is observed at its default parameters only (always capped at the codeword length for <= 12 variables).",
         "DESIGN.md §4 C13"),
 "C19": ("property-based testing (proptest): exact size laws over serialized artefacts of generated transcripts; analytic proof-size model for the code-based schemes evaluated with the exact t",
         "Exploration: sizes of commitments, proofs and batch proofs of generated transcripts are compared with per-scheme equalities built from element sizes measured on the curve types (so they hold for every degree, bound, hiding setting, number of polynomials and labels generated); for Ligero/Brakedown the proof may not exceed 1.25x what its own matrix shape accounts for and 4x the best power-of-two shape of an analytic model using the exact t of C13. One root cause (F15: 2-row matrix whenever every column is opened) is a recorded known finding; other excesses are violations.",
         "The 4x law is the property's own; 'best shape' ranges over succinct shapes (t below the codeword length) whenever the library's shape is succinct - without that restriction the model would prefer shipping the whole polynomial at a few hundred coefficients, which is not what the property means. Brakedown's alternative shapes are modelled by its rate.",
         "DESIGN.md §4 C19"),
 "C14": ("property-based testing (proptest): differential time-vs-space provers, known-trapdoor closed forms, naive folding model for the folded-polynomial iterators",
         "Exploration: for generated polynomials, points, polynomial counts, buffer sizes and key sizes the streaming committer/prover is compared with the in-memory one (commitments, evaluations, remainders, proofs) and both with closed forms under a trapdoor known to the harness; the folding iterators are compared level by level with a naive fold of the zero-padded input for every length 1..130 and depth 0..7 generated, and commit_folding/open_folding with the time prover on the explicit folds. Found F10 (abort for fewer coefficients than points), repaired; catches the sub-agent change seeded/C14 (padding off-by-one).",
         "The trapdoor is recovered by replaying the setup RNG; Commitment's inner point is crate-private and compared through its Debug form or through proofs of shifted polynomials.",
         "DESIGN.md §4 C14"),
 "C16": ("property-based testing (proptest): shadow-evaluator model for LinearCombination operator sequences, direct-evaluation oracle for evaluate_query_set, independent product expansion for SuccinctCheckPolynomial",
         "Exploration with tens of thousands of cheap cases: random operator sequences over LinearCombination are mirrored on numbers under a random assignment and compared after every step; evaluate_query_set is compared with Horner evaluation and the exact key set; the succinct check polynomial's coefficient vector is compared with the harness's own expansion and its O(log d) evaluation with Horner.",
         "none beyond field arithmetic of ark-ff",
         "DESIGN.md §4 C16"),
 "C17": ("fault enumeration x property-based generation: request kinds and boundary magnitudes injected into generated valid scenarios",
         "Exploration of the boundary of every scheme's domain: each case injects one out-of-domain request kind (oversized polynomial by degree/total degree/variables, hiding bound 0 or beyond the key, missing RNG, point of the wrong length, unknown polynomial, missing commitment/evaluation, mismatched labels, trim beyond the parameters, degenerate setup) at a generated magnitude into an otherwise valid generated scenario; Ok results are violations (or, where the scheme defines the request, anything served must be sound). Sensitivity confirmed against the reverted fixes F11, F12, F13 (and F7 through C01).",
         "Which requests are out of domain is read from each scheme's documentation/admission code (IPA: every hiding bound hides; Ligero: no size limit; PST13/multilinear-PST embed polynomials with fewer variables).",
         "DESIGN.md §4 C17"),
 "C11": ("stateful property-based testing: generated operation histories interpreted on one shared sponge per side, sponge-state digests compared after every prefix, proof transposition and pre-state mutations",
         "Exploration over histories (vec of 1-6 operations, shrunk as one value) of open / batch_open / open_combinations on one pre-seeded prover sponge, replayed by the verifier on an identically initialised sponge: every check must accept and both sponges must squeeze identical values after every prefix; transposed proofs and a different verifier pre-state must be rejected at the first affected check for non-constant polynomials. Catches the sub-agent change seeded/C11 (prover skipping one squeeze for constant degree-bounded non-hiding polynomials).",
         "Mutation rejection is not asserted for constant polynomials (property caveat) nor for code-based instances whose Fiat-Shamir positions collide with probability above 2^-40.",
         "DESIGN.md §4 C11"),
 "C10": ("differential testing against independent reference verifiers over the single-fault neighbourhood of generated transcripts (property-based generation of transcript and replaced component)",
         "Exploration: for each generated accepting transcript one verifier-visible component (commitment part, bound label, value, point coordinate, proof element, key element) is replaced by a random valid element of its type and the library's decision is compared with an independent implementation of the scheme's published relation using the harness's own challenge derivation (sponge replay, IPA random-oracle rounds, Fiat-Shamir column indices); the unmodified transcript must satisfy the reference; batch_check is compared with the conjunction over point labels. Catches the sub-agent change seeded/C10 and the reverted Merkle-boolean fix.",
         "The reference verifiers encode the published relations as read from the module documentation and cited papers; they share ark-ec/ark-ff/ark-crypto-primitives primitives with the library.",
         "DESIGN.md §4 C10"),
 "C18": ("differential testing across configurations: digests of all outputs of fixed-seed generated scenarios under 7 rayon pool configurations and a second build without the parallel feature",
         "Exploration: the same generated scenarios are executed by child processes under RAYON_NUM_THREADS in {1,2,3,8,16,16,16,16} and by a build of the harness against ark-poly-commit without `parallel`; SHA-256 digests over the serialization of every output must coincide; mismatches are reduced greedily to a replay naming both configurations. Catches the sub-agent change seeded/C18 (Hyrax blinders handed out by an atomic cursor) and the reverted F9 fix.",
         "The scheduler is not controlled: a scheduling-dependent result is found only if it manifests in one of the runs.",
         "DESIGN.md §4 C18"),
}

NOT_YET = "check not built yet in this round (planned, see DESIGN.md §4)"

def main():
    src = subprocess.run(["git", "-C", "/repo", "log", "--format=%H %s"], capture_output=True, text=True).stdout.splitlines()
    fixes = [l.split()[0] for l in src if " fix:" in " " + l.split(" ", 1)[1][:5] or l.split(" ", 1)[1].startswith("fix:")]
    checks = []
    for pid in ALL:
        if pid not in CLAIMED:
            continue
        tech, text, note, ref = CLAIMED[pid]
        checks.append({
            "property_id": pid,
            "quick_cmd": f"./run.sh {pid} quick",
            "thorough_cmd": f"./run.sh {pid} thorough",
            "evidence_file": f"/verif/evidence/{pid}.json",
            "replay_cmd_template": "./run.sh replay {path}",
            "engine": "pcverif",
            "level_claimed": {"category": "exploration", "text": text, "design_ref": ref},
            "level_note": note,
            "technique": tech,
        })
    m = {
        "version": 1,
        "setup_cmd": "./run.sh setup",
        "hooks": {
            "guard": "arkworks_rs_poly_commit_verif",
            "enable": "no hook exists: the harness reaches everything through public items and canonical serialization, so /repo is built exactly as shipped (cfg flag reserved, used by no source commit)",
            "baseline_off_cmd": "cd /repo && cargo test --workspace --no-fail-fast --offline",
            "source_commits": [],
            "add_only": True,
        },
        "engines": [
            {"name": "pcverif", "path": "/verif/harness", "serves_properties": sorted(CLAIMED.keys()),
             "kind_free_text": "Rust binary driving proptest 1.11 (fixed seed, shrinking, JSON replay files) against /repo/poly-commit as a path dependency; fixed-work quick/thorough tiers; 16-way deterministic worker pool"},
        ],
        "checks": checks,
        "notes": "Exit 0 = held on everything explored (KNOWN-FINDING lines allowed), 1 = VIOLATION line printed, 2 = inconclusive (build failure / watchdog). Genuine defects repaired in /repo by unguarded 'fix:' commits are listed in /verif/known_findings.json (status fixed): " + ", ".join(f[:7] for f in fixes),
        "not_applicable": [{"property_id": p, "reason": NOT_YET} for p in ALL if p not in CLAIMED],
    }
    json.dump(m, open("/verif/MANIFEST.json", "w"), indent=1)
    print("MANIFEST.json written:", len(checks), "checks,", len(m["not_applicable"]), "not claimed")

if __name__ == "__main__":
    main()
