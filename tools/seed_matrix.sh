#!/bin/bash
# tools/seed_matrix.sh  -- run every seeded change (and own mutant) against the check of its property; writes seeded/RESULTS.txt
cd "${VERIF_ROOT:-/verif}"
out=${MATRIX_OUT:-seeded/RESULTS.txt}
: > $out
for d in seeded/C*/; do
  id=$(basename $d)
  prop=${id%%-*}
  extra=""
  case $id in C02|C10) extra="C02 C10";; C11) extra="C11 C01";; C19) extra="C19 C13";; esac
  for p in ${extra:-$prop}; do
    echo "== seeded/$id vs $p" >> $out
    tools/with_patch.sh seeded/$id/patch.diff $p quick 2>&1 | grep -E "VIOLATION|unit=|exit=|INCONCLUSIVE|cannot" | cut -c1-260 >> $out
  done
done
for m in mutants/*.diff; do
  prop=$(basename $m | sed -E 's/^[^_]*_?//' | cut -c1-0)
  p=$(grep -m1 -o "^# check: C[0-9]*" $m | cut -d' ' -f3)
  [ -z "$p" ] && p=C03
  echo "== $m vs $p" >> $out
  tools/with_patch.sh $m $p quick 2>&1 | grep -E "VIOLATION|unit=|exit=|INCONCLUSIVE|cannot" | cut -c1-260 >> $out
done
echo DONE >> $out
