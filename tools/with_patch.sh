#!/bin/bash
# tools/with_patch.sh <patch.diff | revert:<sha>> <ID> [tier]  -- apply a change to /repo, run a check, always undo.
# Used only for sensitivity experiments; never leaves /repo modified.
set -u
what="$1"; id="$2"; tier="${3:-quick}"
REPO="${VERIF_REPO:-/repo}"; ROOT="${VERIF_ROOT:-/verif}"   # a snapshot run (vp run --with-repo) sets both
cd "$REPO" || exit 2
if [ -n "$(git status --porcelain --untracked-files=no)" ]; then echo "/repo not clean"; exit 2; fi
restore() { git -C "$REPO" reset -q --hard HEAD; }
trap restore EXIT
case "$what" in
  revert:*) git diff "${what#revert:}"^ "${what#revert:}" | git apply -R || { echo "cannot revert"; exit 2; } ;;
  *) case "$what" in /*) ;; *) what="$ROOT/$what";; esac; git apply "$what" || { echo "cannot apply $what"; exit 2; } ;;
esac
cd "$ROOT" && ./run.sh "$id" "$tier" 2>/dev/null | grep -E "VIOLATION|KNOWN-FINDING|INCONCLUSIVE|property=|unit=" | cut -c1-400
echo "exit=${PIPESTATUS[0]}"
