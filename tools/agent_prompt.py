#!/usr/bin/env python3
"""Prints the sub-agent brief for one property (property text only; nothing from /verif's machinery)."""
import json, sys
pid = sys.argv[1]
n = int(sys.argv[2]) if len(sys.argv) > 2 else 1
for l in open('/verif/properties.jsonl'):
    p = json.loads(l)
    if p['id'] == pid:
        break
wt = f"/tmp/wt-{pid}" + (f"-{n}" if n > 1 else "")
avoid = ""
if n > 1:
    import os
    prev = []
    for d in sorted(os.listdir('/verif/seeded')):
        if d.split('-')[0] == pid and os.path.exists(f'/verif/seeded/{d}/meta.json'):
            prev.append(json.load(open(f'/verif/seeded/{d}/meta.json'))['summary'][:400])
    if prev:
        avoid = "\n\nALREADY TAKEN (do not repeat; pick a different function, a different kind of mistake and, where the property spans several schemes or code paths, a different scheme/path):\n" + "\n".join("  - " + x for x in prev)
print(f"""You are helping evaluate a verification framework by planting a realistic bug ("seeded change") in a Rust library.

Work ONLY inside the git worktree {wt} (a checkout of arkworks-rs/poly-commit, a Rust library of polynomial commitment schemes: KZG10/Marlin, Sonic, IPA, PST13, multilinear PST, Hyrax, Ligero/Brakedown, streaming KZG; crate sources under {wt}/poly-commit/src). Do not read or touch /verif or /repo. There is no network: always pass --offline to cargo (e.g. `cd {wt} && cargo test -p ark-poly-commit --offline <filter>`). The machine is shared, so be frugal: while developing run only the relevant test modules (e.g. `cargo test -p ark-poly-commit --offline marlin_pc`); run the whole suite (`cd {wt} && cargo test --workspace --offline --no-fail-fast`, about 5-10 minutes) exactly once at the end.

THE PROPERTY that your change must break (id {pid}, "{p['title']}"):

  {p['statement']}

  Quantifier: {p['quantifier']['text']}

  Code it is anchored in: {', '.join(p['anchors']['files'])}

YOUR TASK: make ONE small change to the library sources (a plausible maintenance mistake: an off-by-one, a dropped term, a wrong index or window, a swapped field, a condition that is too lenient, a fast path that is wrong for a corner shape, two sites that each look fine but disagree, ...) such that
  1. the crate still compiles and the ENTIRE existing test suite still passes (all 113 tests of `cargo test --workspace --offline`), and
  2. the property above is violated for SOME input, and
  3. the violation needs something specific to manifest - an unusual input shape, a particular size/degree/bound combination, a multi-step sequence of calls, a crafted (non-honest) proof, a particular configuration - NOT something that ordinary use would expose at once (if a plain honest commit/open/check round trip on a random polynomial fails, the change is too blunt; the existing tests would likely catch it anyway).
Prefer a change inside the library logic proper (not in test code, not in Cargo files). Do not add cfg flags. Keep it small (a few lines).{avoid}

DELIVERABLES - create the directory {wt}/_seeded/ containing:
  * patch.diff  - output of `git -C {wt} diff -- poly-commit` (the library change only; do not include _seeded or your demo in it),
  * a demonstration: a self-contained Rust integration test file `demo.rs` (written for placement at {wt}/poly-commit/tests/demo_{pid.lower()}.rs, using only the crate's public API plus the dev-dependencies already in poly-commit/Cargo.toml such as ark-bls12-381, ark-ed-on-bls12-381, ark-poly, ark-ff, ark-ec, ark-std, ark-serialize, ark-crypto-primitives, rand_chacha, blake2) that FAILS with your change applied and PASSES on the unchanged sources. Verify both directions yourself (never use `git stash` - the stash is shared by all worktrees of this repository and other agents work in parallel; flip your change with `git diff -- poly-commit > /tmp/my-{pid}-{n}.diff`, `git apply -R /tmp/my-{pid}-{n}.diff` and `git apply /tmp/my-{pid}-{n}.diff`; run with `cargo test -p ark-poly-commit --offline --test demo_{pid.lower()}`),
  * meta.json with keys: "property" ("{pid}"), "summary" (what was changed, one or two sentences), "needs" (what specific input/sequence/configuration is needed for the violation to manifest), "ran" (the commands you ran and their outcomes, including the full-suite result with the change applied).
Leave the worktree with the change APPLIED and the demo test file in place.

Note: some types are crate-private (e.g. the linear-code proof/commitment types, Hyrax commitment state); if your demo needs to build or tamper with them, go through their CanonicalSerialize/CanonicalDeserialize bytes or pick a demonstration that only needs public API. Test-only helpers inside the crate (`#[cfg(test)]`) are not visible to integration tests; for the linear-code schemes you can copy the small hasher/Merkle-config definitions used in the crate's own tests into your demo.

Finish with a short report: the change, why tests still pass, what input triggers the violation, and confirmation that demo fails with / passes without the change and that the full suite passes with the change.""")
