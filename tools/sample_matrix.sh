#!/bin/bash
cd "$VERIF_ROOT"
out=/root/.vp/runs/sample-matrix.txt
: > $out
for id in C02-3 C03-2 C04-2 C08-5 C13-4 C17-2 C18-2 C19-3 C10-4 C09-5 C01-3 C03-5 C04-7 C13-2 C17-5 C19-6 C02-7 C08-6 C10-6 C05-4 C06-5 C12-5 C16-7 C11-7; do
  prop=${id%%-*}
  echo "== seeded/$id vs $prop" >> $out
  tools/with_patch.sh seeded/$id/patch.diff $prop quick 2>&1 | grep -E "VIOLATION|exit=|INCONCLUSIVE|cannot" | cut -c1-200 | head -3 >> $out
done
echo DONE >> $out
