#!/bin/bash
# tools/confirm_seed.sh <ID> [suffix]  -- independently confirm a sub-agent's seeded change in its scratch worktree,
# store it under /verif/seeded/<ID><suffix>/ and remove the worktree.
set -u
id="$1"; suf="${2:-}"
wt=/tmp/wt-$id$suf
lid=$(echo "$id" | tr 'A-Z' 'a-z')
out=/verif/seeded/$id$suf
log=/tmp/confirm-$id$suf.log
: > $log
cd $wt || exit 2
[ -f _seeded/patch.diff ] || { echo "no patch"; exit 2; }
# normalise: make sure the change is applied
git apply --check -R _seeded/patch.diff 2>/dev/null || git apply _seeded/patch.diff || { echo "patch state unclear" | tee -a $log; exit 2; }
demo=poly-commit/tests/demo_$lid.rs
mkdir -p poly-commit/tests; [ -f $demo ] || cp _seeded/demo.rs $demo
echo "== demo WITH change (must fail)" >> $log
cargo test -p ark-poly-commit --offline --test demo_$lid >> $log 2>&1; with=$?
git apply -R _seeded/patch.diff
echo "== demo WITHOUT change (must pass)" >> $log
cargo test -p ark-poly-commit --offline --test demo_$lid >> $log 2>&1; without=$?
git apply _seeded/patch.diff
echo "== full suite WITH change (must pass)" >> $log
mv $demo /tmp/demo_$lid$suf.rs.keep
cargo test --workspace --offline --no-fail-fast >> $log 2>&1; suite=$?
npass=$(grep -E "^test result: ok\. 113 passed" $log | wc -l)
echo "with=$with without=$without suite=$suite suite113=$npass" | tee -a $log
if [ $with -ne 0 ] && [ $without -eq 0 ] && [ $suite -eq 0 ] && [ $npass -ge 1 ]; then
  mkdir -p $out
  cp _seeded/patch.diff $out/patch.diff
  cp /tmp/demo_$lid$suf.rs.keep $out/demo.rs
  python3 - "$out" "$id" "$wt" <<'PY'
import json,sys
out,id,wt=sys.argv[1:4]
try: m=json.load(open(wt+'/_seeded/meta.json'))
except Exception as e: m={"property":id,"summary":"(meta.json unreadable: %s)"%e}
m["confirmed_by_me"]={"demo_with_change":"fails","demo_without_change":"passes","full_suite_with_change":"113 passed","how":"tools/confirm_seed.sh in the scratch worktree (cargo test --test demo / cargo test --workspace --offline --no-fail-fast)"}
json.dump(m,open(out+'/meta.json','w'),indent=1)
PY
  echo CONFIRMED $id$suf
else
  echo NOT-CONFIRMED $id$suf
fi
cd / && git -C /repo worktree remove --force $wt && rm -f /tmp/demo_$lid$suf.rs.keep
