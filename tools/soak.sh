#!/bin/bash
# tools/soak.sh <tier> <seed...>  -- run every claimed check on the unchanged tree under the given seeds; any VIOLATION
# or non-zero exit on the unchanged tree means the check (or the tree) needs attention. Writes tools/soak.log.
cd "${VERIF_ROOT:-/verif}"
tier="$1"; shift
log=tools/soak-$tier.log
for seed in "$@"; do
  for id in $(python3 -c "import json;print(' '.join(c['property_id'] for c in json.load(open('MANIFEST.json'))['checks']))"); do
    s=$(date +%s)
    out=$(VERIF_SEED=$seed ./run.sh $id $tier 2>/dev/null | grep -E "VIOLATION|INCONCLUSIVE|^property=|unit=" | cut -c1-300)
    rc=$?
    e=$(( $(date +%s) - s ))
    echo "seed=$seed $id ${e}s :: $(echo "$out" | tr '\n' '|')" >> $log
  done
done
echo DONE >> $log
